package main

import (
	"fmt"
	"strconv"
	"strings"
)

// Reference trees of the DSL (what the generator means), rendered to rule text with random
// line breaks; every node records the line of its first token in the rendered text.

type RE struct {
	Op   string `json:"op"`             // lit var idx call ar cmp log not paren
	Line int    `json:"line"`           // line of the first token (filled by the renderer)
	Sym  string `json:"sym,omitempty"`  // operator symbol / variable name / function name
	Kind string `json:"kind,omitempty"` // call kind: func | method
	Val  *JVal  `json:"val,omitempty"`
	Key  *RKey  `json:"key,omitempty"`
	L    *RE    `json:"l,omitempty"`
	R    *RE    `json:"r,omitempty"`
	Args []*RE  `json:"args,omitempty"`
	Toks []*PTok `json:"toks,omitempty"` // op "toks": a token string, read by the parser model of the driver
	Damaged bool `json:"-"`
}

// a token of an expression: an atom (constant, variable, element access, call) is one token
type PTok struct {
	T    string `json:"t"` // atom ar cmp log not lp rp
	Sym  string `json:"sym,omitempty"`
	Line int    `json:"line,omitempty"`
	E    *RE    `json:"e,omitempty"`
}

type RKey struct {
	T string `json:"t"` // int | str | var
	V string `json:"v"`
}

type RS struct {
	Op    string  `json:"op"` // assign if for forRange break continue call conc
	Line  int     `json:"line"`
	Sym   string  `json:"sym,omitempty"` // assign operator; forRange key
	Coll  string  `json:"coll,omitempty"`
	Tgt   *RE     `json:"tgt,omitempty"` // assignment target (var or idx)
	E     *RE     `json:"e,omitempty"`   // assigned expr / condition / call
	Init  *RS     `json:"init,omitempty"`
	Step  *RS     `json:"step,omitempty"`
	Body  *RBlock `json:"body,omitempty"`
	Elifs []RElif `json:"elifs,omitempty"`
	Else  *RBlock `json:"else,omitempty"`
	Items []*RS   `json:"items,omitempty"`
}

type RElif struct {
	Cond *RE     `json:"cond"`
	Body *RBlock `json:"body"`
}

type RBlock struct {
	Stmts  []*RS `json:"stmts"`
	HasRet bool  `json:"hasRet"`
	Ret    *RE   `json:"ret,omitempty"` // nil with HasRet = bare return
}

// ---------- rendering ----------

type renderer struct {
	r     *rng
	sb    strings.Builder
	line  int
	multi bool // insert line breaks inside constructs
}

func (w *renderer) tok(s string) {
	if w.multi && w.r.chance(1, 7) {
		w.sb.WriteString("\n")
		w.line++
	} else {
		w.sb.WriteString(" ")
	}
	w.sb.WriteString(s)
}

func (w *renderer) nl() {
	w.sb.WriteString("\n")
	w.line++
}

func litText(v *JVal) string {
	switch v.K {
	case "string":
		return "\"" + v.V + "\""
	case "bool":
		return v.V
	case "float64":
		b, _ := strconv.ParseUint(v.V, 10, 64)
		f := mathFloat64frombits(b)
		s := strconv.FormatFloat(f, 'f', -1, 64)
		if !strings.Contains(s, ".") {
			s += ".0"
		}
		return s
	}
	return v.V
}

// expr renders e and sets e.Line to the line of its first token
func (w *renderer) expr(e *RE) {
	switch e.Op {
	case "lit":
		w.tok(litText(e.Val))
		e.Line = w.line
	case "var", "at":
		w.tok(e.Sym)
		e.Line = w.line
	case "idx":
		w.tok(e.Sym)
		e.Line = w.line
		w.sb.WriteString("[")
		switch e.Key.T {
		case "int":
			w.sb.WriteString(e.Key.V)
		case "str":
			w.sb.WriteString("\"" + e.Key.V + "\"")
		default:
			w.sb.WriteString(e.Key.V)
		}
		w.sb.WriteString("]")
	case "call":
		w.tok(e.Sym)
		e.Line = w.line
		w.sb.WriteString("(")
		for i, a := range e.Args {
			if i > 0 {
				w.sb.WriteString(",")
			}
			w.expr(a)
		}
		w.sb.WriteString(" )")
	case "toks":
		for k, t := range e.Toks {
			switch t.T {
			case "atom":
				w.expr(t.E)
				t.Line = t.E.Line
			case "not":
				w.tok("!")
				t.Line = w.line
			case "lp":
				w.tok("(")
				t.Line = w.line
			case "rp":
				w.tok(")")
			default:
				w.tok(t.Sym)
			}
			if k == 0 {
				e.Line = t.Line
				if t.T != "atom" && t.T != "not" && t.T != "lp" {
					e.Line = w.line
				}
			}
		}
	case "paren":
		w.tok("(")
		e.Line = w.line
		w.expr(e.L)
		w.tok(")")
	case "not":
		w.tok("!")
		e.Line = w.line
		w.expr(e.L)
	default: // ar cmp log
		w.expr(e.L)
		e.Line = e.L.Line
		w.tok(e.Sym)
		w.expr(e.R)
	}
}

func (w *renderer) assign(s *RS) {
	w.expr(s.Tgt)
	s.Line = s.Tgt.Line
	w.tok(s.Sym)
	w.expr(s.E)
}

func (w *renderer) block(b *RBlock) {
	for _, s := range b.Stmts {
		w.stmt(s)
		w.nl()
	}
	if b.HasRet {
		w.tok("return")
		if b.Ret != nil {
			w.expr(b.Ret)
		}
		w.nl()
	}
}

func (w *renderer) stmt(s *RS) {
	switch s.Op {
	case "assign":
		w.assign(s)
	case "call":
		w.expr(s.E)
		s.Line = s.E.Line
	case "break", "continue":
		w.tok(s.Op)
		s.Line = w.line
	case "if":
		w.tok("if")
		s.Line = w.line
		w.expr(s.E)
		w.tok("{")
		w.nl()
		w.block(s.Body)
		w.tok("}")
		for i := range s.Elifs {
			w.tok("else")
			w.tok("if")
			w.expr(s.Elifs[i].Cond)
			w.tok("{")
			w.nl()
			w.block(s.Elifs[i].Body)
			w.tok("}")
		}
		if s.Else != nil {
			w.tok("else")
			w.tok("{")
			w.nl()
			w.block(s.Else)
			w.tok("}")
		}
	case "for":
		w.tok("for")
		s.Line = w.line
		w.assign(s.Init)
		w.tok(";")
		w.expr(s.E)
		w.tok(";")
		w.assign(s.Step)
		w.tok("{")
		w.nl()
		w.block(s.Body)
		w.tok("}")
	case "forRange":
		w.tok("forRange")
		s.Line = w.line
		w.tok(s.Sym)
		w.tok(":=")
		w.tok(s.Coll)
		w.tok("{")
		w.nl()
		w.block(s.Body)
		w.tok("}")
	case "conc":
		w.tok("conc")
		s.Line = w.line
		w.tok("{")
		w.nl()
		for _, it := range s.Items {
			w.stmt(it)
			w.nl()
		}
		w.tok("}")
	}
}

type ruleHdr struct {
	Name string `json:"name"`
	Desc string `json:"desc"`
	HasDesc bool `json:"hasDesc"`
	Sal  int64  `json:"sal"`
	HasSal bool `json:"hasSal"`
}

func (w *renderer) rule(h ruleHdr, body *RBlock) {
	w.sb.WriteString("rule \"" + h.Name + "\"")
	if h.HasDesc {
		w.sb.WriteString(" \"" + h.Desc + "\"")
	}
	if h.HasSal {
		w.sb.WriteString(fmt.Sprintf(" salience %d", h.Sal))
	}
	w.tok("begin")
	w.nl()
	w.block(body)
	w.sb.WriteString("end")
	w.nl()
}


func precOf(e *RE) int {
	switch e.Op {
	case "ar":
		if e.Sym == "*" || e.Sym == "/" {
			return 4
		}
		return 3
	case "cmp":
		return 2
	case "log":
		return 1
	}
	return 10
}

// mkBin builds a binary node whose unparenthesised rendering parses back to itself: a left
// operand that binds looser and a right operand that binds looser or equally get explicit
// parentheses (which are nodes of the reference tree).
func mkBin(op, sym string, l, r *RE) *RE {
	n := &RE{Op: op, Sym: sym}
	p := precOf(n)
	if precOf(l) < p {
		l = &RE{Op: "paren", L: l}
	}
	if precOf(r) <= p {
		r = &RE{Op: "paren", L: r}
	}
	n.L, n.R = l, r
	return n
}

func mkNot(e *RE) *RE {
	switch e.Op {
	case "lit", "var", "idx", "call", "at", "paren":
		if e.Op == "lit" && (e.Val.K == "int64" || e.Val.K == "float64") && strings.HasPrefix(litText(e.Val), "-") {
			e = &RE{Op: "paren", L: e}
		}
		return &RE{Op: "not", L: e}
	}
	return &RE{Op: "not", L: &RE{Op: "paren", L: e}}
}

// ---------- generation ----------

type egen struct {
	r      *rng
	locals map[string]string // local name -> class: num | str | bool  (best effort)
	illP   int               // per-mille probability of an ill-typed choice
	depth  int
	quiet  bool              // inside an unbounded loop: no conc blocks
	ivInUse map[string]bool  // loop variables of the enclosing loops
	concP  int               // percent of statements that are conc blocks (default 5)
	noteN  int               // running argument of obsC / Note events, distinct per rule
	recvLocal bool           // the rule starts with `t = S`: method / three-level calls may go through the local
}

func lit(k, v string) *RE { return &RE{Op: "lit", Val: &JVal{k, v}} }

// kinds of a numeric class: num (any), sint, uint, flt
func kindsOf(cls string) []string {
	switch cls {
	case "sint":
		return []string{"int", "int8", "int16", "int32", "int64"}
	case "uint":
		return []string{"uint", "uint8", "uint16", "uint32", "uint64"}
	case "flt":
		return []string{"float32", "float64"}
	}
	return numKinds
}

func fieldOfKind(k string) string {
	switch k {
	case "int":
		return "I"
	case "uint":
		return "U"
	case "float32":
		return "F32"
	case "float64":
		return "F64"
	}
	if strings.HasPrefix(k, "int") {
		return "I" + k[3:]
	}
	return "U" + k[4:]
}

func (g *egen) numAtom(cls string) *RE {
	r := g.r
	ks := kindsOf(cls)
	p := r.intn(100)
	switch {
	case p < 30 && (cls == "num" || cls == "sint"):
		// integer literal (int64 constant), sometimes big / negative
		vals := []string{"1", "2", "3", "5", "7", "10", "0", "-1", "-3", "100", "9007199254740993", "9007199254740992", "9223372036854775807", "-9223372036854775808"}
		if r.chance(5, 6) {
			return lit("int64", vals[r.intn(8)])
		}
		return lit("int64", vals[r.intn(len(vals))])
	case p < 38 && (cls == "num" || cls == "flt"):
		fs := []float64{0.5, 1.5, 2.0, 0.25, 3.0, 10.0}
		return lit("float64", strconv.FormatUint(mathFloat64bits(fs[r.intn(len(fs))]), 10))
	case p < 58:
		return &RE{Op: "var", Sym: "v_" + ks[r.intn(len(ks))]}
	case p < 78:
		obj := "S"
		if r.chance(1, 4) {
			obj = "SV"
		}
		return &RE{Op: "var", Sym: obj + "." + fieldOfKind(ks[r.intn(len(ks))])}
	case p < 86:
		var names []string
		for n, c := range g.locals {
			if c == cls || (cls == "num" && (c == "sint" || c == "uint" || c == "flt")) {
				names = append(names, n)
			}
		}
		if len(names) > 0 {
			sortStrings(names)
			return &RE{Op: "var", Sym: names[r.intn(len(names))]}
		}
		return &RE{Op: "var", Sym: "v_" + ks[r.intn(len(ks))]}
	case p < 93:
		if g.ill() || (g.illP > 50 && r.chance(1, 4)) {
			// faulty element access: unknown collection, string index into a slice, undefined key
			// variable, out-of-range index
			switch r.intn(5) {
			case 0:
				return &RE{Op: "idx", Sym: "NOPE", Key: &RKey{"int", "1"}}
			case 1:
				return &RE{Op: "idx", Sym: "A", Key: &RKey{"str", "x"}}
			case 2:
				return &RE{Op: "idx", Sym: "M", Key: &RKey{"var", "nokey"}}
			case 3:
				return &RE{Op: "idx", Sym: "AP", Key: &RKey{"int", "9"}}
			default:
				return &RE{Op: "idx", Sym: "v_int", Key: &RKey{"int", "0"}}
			}
		}
		if r.chance(1, 3) {
			// element addressed by a variable (present and missing keys, in-range indexes)
			switch {
			case cls == "sint" || cls == "num":
				switch r.intn(4) {
				case 0:
					return &RE{Op: "idx", Sym: "M", Key: &RKey{"var", "v_string"}}
				case 1:
					return &RE{Op: "idx", Sym: "MP", Key: &RKey{"var", []string{"v_string", "w_string", "S.Str"}[r.intn(3)]}}
				case 2:
					return &RE{Op: "idx", Sym: "A", Key: &RKey{"var", []string{"v_uint8", "v_int8", "v_int"}[r.intn(3)]}}
				default:
					return &RE{Op: "idx", Sym: "AP", Key: &RKey{"var", "v_int16"}}
				}
			case cls == "flt":
				return &RE{Op: "idx", Sym: "MF", Key: &RKey{"var", []string{"v_int32", "v_int8", "v_int64"}[r.intn(3)]}}
			case cls == "str":
				return &RE{Op: "idx", Sym: "MI", Key: &RKey{"var", []string{"v_int64", "v_int16", "v_uint8"}[r.intn(3)]}}
			}
		}
		switch {
		case cls == "sint" || cls == "num":
			switch r.intn(3) {
			case 0:
				return &RE{Op: "idx", Sym: "M", Key: &RKey{"str", []string{"a", "b", "c", "zz"}[r.intn(4)]}}
			case 1:
				return &RE{Op: "idx", Sym: "A", Key: &RKey{"int", strconv.Itoa(r.intn(3))}}
			default:
				return &RE{Op: "idx", Sym: "AP", Key: &RKey{"int", strconv.Itoa(r.intn(3))}}
			}
		case cls == "flt":
			return &RE{Op: "idx", Sym: "MF", Key: &RKey{"int", []string{"1", "5", "9"}[r.intn(3)]}}
		default:
			return &RE{Op: "idx", Sym: "AU", Key: &RKey{"int", strconv.Itoa(r.intn(2))}}
		}
	default:
		k := ks[r.intn(len(ks))]
		return &RE{Op: "call", Kind: "func", Sym: "echo_" + k, Args: []*RE{g.smallNum()}}
	}
}

func (g *egen) smallNum() *RE {
	return lit("int64", []string{"0", "1", "2", "3", "7", "100", "5", "300", "70000"}[g.r.intn(9)])
}

func (g *egen) strAtom() *RE {
	r := g.r
	switch r.intn(5) {
	case 0:
		return &RE{Op: "var", Sym: "v_string"}
	case 1:
		return &RE{Op: "var", Sym: "S.Str"}
	case 2:
		return &RE{Op: "call", Kind: "func", Sym: "cat", Args: []*RE{lit("string", "x"), lit("string", "y")}}
	case 3:
		if r.chance(1, 2) {
			return &RE{Op: "idx", Sym: "MI", Key: &RKey{"var", []string{"v_int64", "v_int16", "v_uint8"}[r.intn(3)]}}
		}
		return &RE{Op: "idx", Sym: "MI", Key: &RKey{"int", []string{"1", "2", "7"}[r.intn(3)]}}
	default:
		return lit("string", []string{"", "a", "ab", "b", "Z", "hello"}[r.intn(6)])
	}
}

func (g *egen) boolAtom() *RE {
	r := g.r
	switch r.intn(4) {
	case 0:
		return &RE{Op: "var", Sym: "v_bool"}
	case 1:
		return &RE{Op: "var", Sym: "S.B"}
	default:
		return lit("bool", []string{"true", "false"}[r.intn(2)])
	}
}

func (g *egen) ill() bool { return g.r.intn(1000) < g.illP }

// math tree of a class: num | sint | uint | flt | str
func (g *egen) math(depth int, cls string) *RE {
	r := g.r
	if depth <= 0 || r.chance(1, 3) {
		if cls == "str" {
			if g.ill() {
				return g.numAtom("num")
			}
			return g.strAtom()
		}
		if g.ill() {
			if r.chance(1, 2) {
				return g.strAtom()
			}
			return g.boolAtom()
		}
		return g.numAtom(cls)
	}
	if r.chance(1, 6) {
		return &RE{Op: "paren", L: g.math(depth-1, cls)}
	}
	ops := []string{"+", "-", "*", "/", "+", "*"}
	op := ops[r.intn(len(ops))]
	if cls == "str" {
		op = "+"
		if g.ill() {
			op = "-"
		}
	}
	rhs := g.math(depth-1, cls)
	if op == "/" && r.chance(3, 4) {
		// mostly a non-zero literal divisor
		if cls == "flt" {
			rhs = lit("float64", strconv.FormatUint(mathFloat64bits(2.0), 10))
		} else if cls == "uint" {
			rhs = &RE{Op: "call", Kind: "func", Sym: "echo_uint8", Args: []*RE{lit("int64", "3")}}
		} else {
			rhs = lit("int64", []string{"2", "3", "-2", "7"}[r.intn(4)])
		}
	}
	return mkBin("ar", op, g.math(depth-1, cls), rhs)
}

// boolean expression tree
func (g *egen) boolExpr(depth int) *RE {
	r := g.r
	if depth <= 0 || r.chance(1, 4) {
		if r.chance(1, 8) {
			// a condition with a side effect the host sees: evaluated exactly once, in order
			return mkBin("cmp", []string{"==", ">", "<="}[r.intn(3)], &RE{Op: "call", Kind: "func", Sym: "bump"}, lit("int64", strconv.Itoa(r.intn(4))))
		}
		p := r.intn(10)
		switch {
		case p < 6:
			cls := []string{"num", "num", "sint", "uint", "flt", "str"}[r.intn(6)]
			cops := []string{"==", "!=", ">", "<", ">=", "<="}
			l, rr := g.math(depth-1, cls), g.math(depth-1, cls)
			if g.ill() {
				rr = g.boolAtom()
			}
			return mkBin("cmp", cops[r.intn(6)], l, rr)
		case p < 8:
			if g.ill() {
				return g.numAtom("num")
			}
			return g.boolAtom()
		default:
			a := g.boolAtom()
			if g.ill() {
				a = g.numAtom("num")
			}
			return mkNot(a)
		}
	}
	p := r.intn(10)
	switch {
	case p < 5:
		return mkBin("log", []string{"&&", "||"}[r.intn(2)], g.boolExpr(depth-1), g.boolExpr(depth-1))
	case p < 7:
		return &RE{Op: "paren", L: g.boolExpr(depth - 1)}
	case p < 8:
		return mkNot(&RE{Op: "paren", L: g.boolExpr(depth - 1)})
	default:
		// comparison of two booleans
		return mkBin("cmp", []string{"==", "!="}[r.intn(2)], g.boolExpr(depth-1), g.boolExpr(depth-1))
	}
}

func (g *egen) anyExpr(depth int) (*RE, string) {
	switch g.r.intn(5) {
	case 0:
		return g.boolExpr(depth), "bool"
	case 1:
		return g.math(depth, "str"), "str"
	default:
		cls := []string{"num", "num", "sint", "uint", "flt"}[g.r.intn(5)]
		return g.math(depth, cls), cls
	}
}

// ---------- token strings (mode parse) ----------

func negLit(e *RE) bool {
	return e.Op == "lit" && (e.Val.K != "string" && e.Val.K != "bool") && strings.HasPrefix(litText(e.Val), "-")
}

// loosen changes the bracketing of a canonical tree at random: brackets the tree needs are
// dropped (the flattened text then reads as another tree), redundant ones are added
func loosen(r *rng, e *RE) *RE {
	wrap := func(x *RE) *RE {
		if r.chance(1, 9) {
			return &RE{Op: "paren", L: x}
		}
		return x
	}
	switch e.Op {
	case "paren":
		in := loosen(r, e.L)
		if r.chance(1, 3) && in.Op != "lit" {
			return in
		}
		return &RE{Op: "paren", L: in}
	case "not":
		if e.L.Op == "paren" {
			return &RE{Op: "not", L: &RE{Op: "paren", L: loosen(r, e.L.L)}}
		}
		return e
	case "ar", "cmp", "log":
		return wrap(&RE{Op: e.Op, Sym: e.Sym, L: loosen(r, e.L), R: loosen(r, e.R)})
	}
	return wrap(e)
}

func flatten(e *RE, out *[]*PTok) {
	switch e.Op {
	case "paren":
		*out = append(*out, &PTok{T: "lp"})
		flatten(e.L, out)
		*out = append(*out, &PTok{T: "rp"})
	case "not":
		*out = append(*out, &PTok{T: "not"})
		flatten(e.L, out)
	case "ar", "cmp", "log":
		flatten(e.L, out)
		*out = append(*out, &PTok{T: e.Op, Sym: e.Sym})
		flatten(e.R, out)
	default:
		*out = append(*out, &PTok{T: "atom", E: e})
	}
}

// genToks: the tokens of a random expression under a random bracketing; one time in eight the
// string is damaged (a token dropped, doubled, two swapped, a stray bracket) and is then mostly
// not an expression any more
func (g *egen) genToks(depth int) *RE {
	e, _ := g.anyExpr(depth)
	var toks []*PTok
	flatten(loosen(g.r, e), &toks)
	r := g.r
	clean := true
	for _, t := range toks {
		if t.T == "atom" && negLit(t.E) {
			clean = false // `a -3` reads as a subtraction: keep such strings as they are
		}
	}
	orig := append([]*PTok{}, toks...)
	damaged := false
	if clean && r.chance(1, 8) && len(toks) > 0 {
		damaged = true
		k := r.intn(len(toks))
		switch r.intn(5) {
		case 0:
			toks = append(toks[:k:k], toks[k+1:]...)
		case 1:
			d := *toks[k]
			toks = append(toks[:k+1:k+1], append([]*PTok{&d}, toks[k+1:]...)...)
		case 2:
			if k+1 < len(toks) {
				toks[k], toks[k+1] = toks[k+1], toks[k]
			}
		case 3:
			toks = append(toks[:k:k], append([]*PTok{{T: "rp"}}, toks[k:]...)...)
		default:
			toks = append(toks[:k:k], append([]*PTok{{T: "lp"}}, toks[k:]...)...)
		}
	}
	for k := 0; k+1 < len(toks); k++ {
		// a name followed by `(` is a call: another token string at the level of atoms
		if toks[k].T == "atom" && (toks[k].E.Op == "var" || toks[k].E.Op == "at") && toks[k+1].T == "lp" {
			toks = orig
			damaged = false
			break
		}
		// `-` in front of a numeric literal is the literal's sign wherever an operand is expected
		if damaged && toks[k].T == "ar" && toks[k].Sym == "-" && toks[k+1].T == "atom" && toks[k+1].E.Op == "lit" &&
			toks[k+1].E.Val.K != "string" && toks[k+1].E.Val.K != "bool" {
			toks = orig
			damaged = false
			break
		}
	}
	if len(toks) == 0 {
		toks = []*PTok{{T: "atom", E: lit("int64", "1")}}
	}
	// an atom must not occur twice as the same node (the renderer stores its line in it)
	seen := map[*RE]bool{}
	for _, t := range toks {
		if t.T == "atom" {
			if seen[t.E] {
				c := *t.E
				t.E = &c
			}
			seen[t.E] = true
		}
	}
	return &RE{Op: "toks", Toks: toks, Damaged: damaged}
}

var localNames = []string{"x0", "x1", "x2", "x3"}

func classOfKind(k string) string {
	switch {
	case k == "string":
		return "str"
	case k == "bool":
		return "bool"
	case strings.HasPrefix(k, "uint"):
		return "uint"
	case strings.HasPrefix(k, "int"):
		return "sint"
	}
	return "flt"
}

// assignment: the right-hand side is generated for the class the target can take
func (g *egen) assignStmt(depth int) *RS {
	r := g.r
	p := r.intn(100)
	var tgt *RE
	cls := "num"     // class of the generated right-hand side
	strict := false // container element: no class crossing
	switch {
	case p < 40:
		name := localNames[r.intn(len(localNames))]
		tgt = &RE{Op: "var", Sym: name}
		if c, ok := g.locals[name]; ok && r.chance(4, 5) {
			cls = c
		} else {
			cls = []string{"num", "sint", "uint", "flt", "str", "bool"}[r.intn(6)]
		}
	case p < 65:
		f := hostFields[r.intn(len(hostFields))]
		obj := "S"
		if r.chance(1, 12) {
			obj = "SV" // not settable: error
		}
		tgt = &RE{Op: "var", Sym: obj + "." + f}
		cls = classOfKind(fieldKind(f))
		if cls == "sint" || cls == "flt" {
			if r.chance(1, 2) {
				cls = "num" // struct fields convert across classes
			}
		} else if cls == "uint" && r.chance(1, 3) {
			cls = "flt"
		}
	case p < 75:
		k := []string{"int32", "uint16", "float64", "string", "int64", "uint64", "float32", "bool"}[r.intn(8)]
		tgt = &RE{Op: "var", Sym: "p_" + k}
		cls = classOfKind(k)
		if cls == "sint" && r.chance(1, 2) {
			cls = "num"
		}
	case p < 86:
		switch r.intn(4) {
		case 0:
			tgt = &RE{Op: "idx", Sym: "M", Key: &RKey{"str", []string{"a", "b", "n"}[r.intn(3)]}}
			cls = "sint"
		case 1:
			tgt = &RE{Op: "idx", Sym: "MP", Key: &RKey{"str", []string{"a", "q"}[r.intn(2)]}}
			cls = "sint"
		case 2:
			tgt = &RE{Op: "idx", Sym: "MI", Key: &RKey{"int", []string{"1", "7"}[r.intn(2)]}}
			cls = "str"
		default:
			tgt = &RE{Op: "idx", Sym: "MF", Key: &RKey{"int", []string{"1", "8"}[r.intn(2)]}}
			cls = "flt"
		}
		strict = true
	case p < 97:
		switch r.intn(4) {
		case 0:
			tgt = &RE{Op: "idx", Sym: "A", Key: &RKey{"int", strconv.Itoa(r.intn(3))}}
			cls = "sint"
		case 1:
			tgt = &RE{Op: "idx", Sym: "AP", Key: &RKey{"int", strconv.Itoa(r.intn(3))}}
			if r.chance(1, 15) {
				tgt.Key.V = "3" // out of range
			}
			cls = "sint"
		case 2:
			tgt = &RE{Op: "idx", Sym: "AU", Key: &RKey{"int", strconv.Itoa(r.intn(2))}}
			cls = "uint"
		default:
			tgt = &RE{Op: "idx", Sym: "ARR", Key: &RKey{"int", strconv.Itoa(r.intn(3))}}
			cls = "sint"
		}
		strict = true
	default:
		if g.ill() || (g.illP > 50 && r.chance(1, 3)) {
			// a bare injected object that is not a scalar: reflect refuses the write
			tgt = &RE{Op: "var", Sym: []string{"S", "MP", "AP", "SV", "obs", "M"}[r.intn(6)]}
		} else if r.chance(1, 3) {
			tgt = &RE{Op: "var", Sym: "v_int64"} // injected by value: unassignable
		} else {
			tgt = &RE{Op: "var", Sym: localNames[r.intn(len(localNames))]}
		}
		cls = "sint"
	}
	_ = strict
	if g.ill() || (g.illP > 50 && r.chance(1, 12)) {
		// a container assigned to an injected pointer to a container of another type: reflect panics
		pairs := [][2]string{{"AP", "A"}, {"MP", "M"}, {"AP", "AS"}, {"MI", "M"}}
		pr := pairs[r.intn(len(pairs))]
		return &RS{Op: "assign", Sym: "=", Tgt: &RE{Op: "var", Sym: pr[0]}, E: &RE{Op: "var", Sym: pr[1]}}
	}
	op := "="
	if r.chance(1, 4) {
		op = []string{"+=", "-=", "*=", "/=", ":="}[r.intn(5)]
	}
	if tgt.Op == "var" && strings.HasPrefix(tgt.Sym, "x") && g.locals[tgt.Sym] == "" && !g.ill() {
		op = "=" // compound assignment needs a defined local
	}
	var e *RE
	switch cls {
	case "str":
		e = g.math(depth, "str")
		if op != "=" && op != ":=" && op != "+=" && !g.ill() {
			op = "+="
		}
	case "bool":
		e = g.boolExpr(depth)
		if !g.ill() {
			op = "="
		}
	default:
		e = g.math(depth, cls)
	}
	if op == "/=" && r.chance(3, 4) {
		e = lit("int64", "2")
		if cls == "flt" {
			e = lit("float64", strconv.FormatUint(mathFloat64bits(2.0), 10))
		}
		if cls == "uint" {
			e = &RE{Op: "call", Kind: "func", Sym: "echo_uint8", Args: []*RE{lit("int64", "3")}}
		}
	}
	if tgt.Op == "var" && !strings.Contains(tgt.Sym, ".") && !strings.HasPrefix(tgt.Sym, "p_") && !strings.HasPrefix(tgt.Sym, "v_") {
		if op == "=" || op == ":=" {
			// arithmetic results are int64 / uint64 / float64: class stays
			g.locals[tgt.Sym] = cls
		}
	}
	return &RS{Op: "assign", Sym: op, Tgt: tgt, E: e}
}

func (g *egen) callStmt() *RS {
	r := g.r
	switch r.intn(6) {
	case 0:
		return &RS{Op: "call", E: &RE{Op: "call", Kind: "func", Sym: "obsS", Args: []*RE{g.math(1, "str")}}}
	case 1:
		if g.ill() || r.chance(1, 12) {
			return &RS{Op: "call", E: &RE{Op: "call", Kind: "func", Sym: "boom"}}
		}
		fallthrough
	case 2:
		return &RS{Op: "call", E: &RE{Op: "call", Kind: "method", Sym: "S.Echo32", Args: []*RE{g.smallNum()}}}
	default:
		return &RS{Op: "call", E: &RE{Op: "call", Kind: "func", Sym: "obs", Args: []*RE{g.math(1, "sint")}}}
	}
}

func (g *egen) block(depth int, inLoop bool, top bool) *RBlock {
	r := g.r
	b := &RBlock{}
	n := 1 + r.intn(3)
	if top {
		n = 2 + r.intn(4)
		if r.chance(4, 5) {
			for _, name := range localNames {
				cls := []string{"sint", "sint", "num", "uint", "flt", "str", "bool"}[r.intn(7)]
				var e *RE
				switch cls {
				case "str":
					e = g.strAtom()
				case "bool":
					e = g.boolAtom()
				default:
					e = g.numAtom(cls)
				}
				b.Stmts = append(b.Stmts, &RS{Op: "assign", Sym: "=", Tgt: &RE{Op: "var", Sym: name}, E: e})
				g.locals[name] = cls
			}
		}
	}
	for i := 0; i < n; i++ {
		b.Stmts = append(b.Stmts, g.stmt(depth, inLoop))
		if r.chance(1, 8) {
			b.Stmts = append(b.Stmts, g.saveRestore()...)
		}
	}
	if top {
		if r.chance(3, 4) {
			b.HasRet = true
			if r.chance(5, 6) {
				b.Ret, _ = g.anyExpr(2)
			}
		}
	} else if r.chance(1, 7) {
		b.HasRet = true
		if r.chance(3, 4) {
			b.Ret, _ = g.anyExpr(1)
		}
	}
	return b
}

// saveRestore: a local saves an injected field (of any kind) or slice element, the source is
// overwritten, then the saved value is written back - the local must hold the value it was
// assigned, not follow its source.
func (g *egen) saveRestore() []*RS {
	r := g.r
	name := localNames[r.intn(len(localNames))]
	var mk func() *RE // a fresh node per use: the writer records a position in every node
	var cls string
	if r.chance(3, 4) {
		f := hostFields[r.intn(len(hostFields))]
		mk = func() *RE { return &RE{Op: "var", Sym: "S." + f} }
		cls = classOfKind(fieldKind(f))
	} else {
		switch r.intn(3) {
		case 0:
			k := strconv.Itoa(r.intn(3))
			mk, cls = func() *RE { return &RE{Op: "idx", Sym: "A", Key: &RKey{"int", k}} }, "sint"
		case 1:
			k := strconv.Itoa(r.intn(2))
			mk, cls = func() *RE { return &RE{Op: "idx", Sym: "AU", Key: &RKey{"int", k}} }, "uint"
		default:
			mk, cls = func() *RE { return &RE{Op: "idx", Sym: "MF", Key: &RKey{"int", "1"}} }, "flt"
		}
	}
	var change *RS
	switch cls {
	case "str":
		change = &RS{Op: "assign", Sym: "=", Tgt: mk(), E: g.strAtom()}
	case "bool":
		change = &RS{Op: "assign", Sym: "=", Tgt: mk(), E: g.boolAtom()}
	case "flt":
		change = &RS{Op: "assign", Sym: []string{"+=", "*=", "="}[r.intn(3)], Tgt: mk(), E: lit("float64", strconv.FormatUint(mathFloat64bits(2.0), 10))}
	default:
		change = &RS{Op: "assign", Sym: []string{"+=", "*=", "="}[r.intn(3)], Tgt: mk(), E: lit("int64", "3")}
	}
	g.locals[name] = cls
	return []*RS{
		{Op: "assign", Sym: "=", Tgt: &RE{Op: "var", Sym: name}, E: mk()},
		change,
		{Op: "assign", Sym: "=", Tgt: mk(), E: &RE{Op: "var", Sym: name}},
	}
}

func (g *egen) stmt(depth int, inLoop bool) *RS {
	r := g.r
	p := r.intn(100)
	if depth <= 0 {
		if p < 75 {
			return g.assignStmt(1)
		}
		return g.callStmt()
	}
	if g.concP > 0 && r.intn(100) < g.concP && !g.quiet {
		return g.concStmt()
	}
	switch {
	case p < 40:
		return g.assignStmt(2)
	case p < 52:
		return g.callStmt()
	case p < 72:
		s := &RS{Op: "if", E: g.boolExpr(2), Body: g.block(depth-1, inLoop, false)}
		ne := r.intn(3)
		if r.chance(1, 2) {
			ne = 0
		}
		for i := 0; i < ne; i++ {
			s.Elifs = append(s.Elifs, RElif{Cond: g.boolExpr(1), Body: g.block(depth-1, inLoop, false)})
		}
		if r.chance(1, 2) {
			s.Else = g.block(depth-1, inLoop, false)
		}
		return s
	case p < 84:
		iv := []string{"i", "j", "k"}[r.intn(3)]
		if r.chance(1, 6) {
			iv = []string{"p_int64", "S.I64", "p_int32"}[r.intn(3)] // the host sees the loop variable
		}
		nestedSame := g.ivInUse[iv] // an enclosing loop uses the same variable: it may never reach its limit
		if g.ivInUse == nil {
			g.ivInUse = map[string]bool{}
		}
		wasInUse := g.ivInUse[iv]
		g.ivInUse[iv] = true
		defer func() { g.ivInUse[iv] = wasInUse }()
		limit := strconv.Itoa(1 + r.intn(4))
		init := &RS{Op: "assign", Sym: "=", Tgt: &RE{Op: "var", Sym: iv}, E: lit("int64", "0")}
		cond := mkBin("cmp", "<", &RE{Op: "var", Sym: iv}, lit("int64", limit))
		quiet := g.quiet
		if r.chance(1, 25) {
			cond = mkBin("cmp", ">=", &RE{Op: "var", Sym: iv}, lit("int64", "0")) // unbounded: cut-off
			g.quiet = true                                                         // no delayed observers 10000 times over
		}
		if nestedSame || (iv != "i" && iv != "j" && iv != "k") {
			// an injected loop variable can be reset by the body: the loop may run to the cut-off
			g.quiet = true
		}
		defer func() { g.quiet = quiet }()
		step := &RS{Op: "assign", Sym: "+=", Tgt: &RE{Op: "var", Sym: iv}, E: lit("int64", "1")}
		if r.chance(1, 5) {
			step = &RS{Op: "assign", Sym: "=", Tgt: &RE{Op: "var", Sym: iv}, E: mkBin("ar", "+", &RE{Op: "var", Sym: iv}, lit("int64", "1"))}
		}
		if iv == "i" || iv == "j" || iv == "k" {
			g.locals[iv] = "sint"
		}
		body := g.block(depth-1, true, false)
		if g.quiet && !quiet && r.chance(1, 2) {
			// an unbounded loop every iteration of which ends in `continue`
			c := &RS{Op: "continue"}
			if r.chance(1, 2) {
				c = &RS{Op: "if", E: mkBin("cmp", ">=", &RE{Op: "var", Sym: iv}, lit("int64", "0")), Body: &RBlock{Stmts: []*RS{{Op: "continue"}}}}
			}
			body.Stmts = append([]*RS{c}, body.Stmts...)
		} else if r.chance(1, 6) {
			// a return from inside the loop body
			body.Stmts = append(body.Stmts, &RS{Op: "if", E: mkBin("cmp", "==", &RE{Op: "var", Sym: iv}, lit("int64", strconv.Itoa(r.intn(3)))),
				Body: &RBlock{HasRet: true, Ret: &RE{Op: "var", Sym: iv}}})
		}
		return &RS{Op: "for", Init: init, E: cond, Step: step, Body: body}
	case p < 90:
		kv := []string{"ix", "iy"}[r.intn(2)]
		coll := []string{"A", "AS", "A"}[r.intn(3)]
		if g.ill() || (g.illP > 50 && r.chance(1, 5)) {
			coll = []string{"NOPE", "v_int", "S"}[r.intn(3)] // unknown / not iterable
		}
		g.locals[kv] = "sint"
		return &RS{Op: "forRange", Sym: kv, Coll: coll, Body: g.block(depth-1, true, false)}
	case p < 95:
		if inLoop {
			op := "break"
			if r.chance(1, 2) {
				op = "continue"
			}
			// usually guarded
			if r.chance(3, 4) {
				if r.chance(1, 3) {
					// ... by a later branch of an if / else-if / else chain: the signal has to travel
					// out of that branch exactly as out of the first one
					other := "continue"
					if op == "continue" {
						other = "break"
					}
					s := &RS{Op: "if", E: g.boolExpr(1), Body: &RBlock{Stmts: []*RS{g.assignStmt(1)}}}
					s.Elifs = append(s.Elifs, RElif{Cond: g.boolExpr(1), Body: &RBlock{Stmts: []*RS{g.assignStmt(1), {Op: op}}}})
					if r.chance(1, 2) {
						s.Elifs = append(s.Elifs, RElif{Cond: g.boolExpr(1), Body: &RBlock{Stmts: []*RS{{Op: other}}}})
					}
					if r.chance(1, 2) {
						s.Else = &RBlock{Stmts: []*RS{{Op: []string{op, other}[r.intn(2)]}}}
					}
					return s
				}
				return &RS{Op: "if", E: g.boolExpr(1), Body: &RBlock{Stmts: []*RS{{Op: op}}}}
			}
			return &RS{Op: op}
		}
		if r.chance(1, 10) {
			return &RS{Op: "break"} // stray break: the rule fails
		}
		return g.assignStmt(1)
	default:
		if g.quiet {
			return g.assignStmt(1)
		}
		return g.concStmt()
	}
}


// conc block with independent children: distinct assignment targets (fields, locals), observer
// calls and method calls with distinct arguments; sometimes one failing child
func (g *egen) concStmt() *RS {
	r := g.r
	var pool []*RS
	tgts := []string{"S.I32", "S.U16", "S.I64", "c0", "c1", "p_int32"}
	for _, i := range r.perm(len(tgts))[:1+r.intn(3)] {
		t := tgts[i]
		if t == "c0" || t == "c1" {
			g.locals[t] = "sint"
		}
		pool = append(pool, &RS{Op: "assign", Sym: "=", Tgt: &RE{Op: "var", Sym: t}, E: g.smallNum()})
	}
	for k, n := 0, r.intn(3); k < n; k++ {
		g.noteN++
		pool = append(pool, &RS{Op: "call", E: &RE{Op: "call", Kind: "func", Sym: "obsC", Args: []*RE{lit("int64", strconv.Itoa(g.noteN))}}})
	}
	recv := func() string {
		if g.recvLocal && r.chance(1, 2) {
			return "t" // a rule-local receiver: the data context finds it in the local store
		}
		return "S"
	}
	for k, n := 0, r.intn(4); k < n; k++ {
		g.noteN++
		pool = append(pool, &RS{Op: "call", E: &RE{Op: "call", Kind: "method", Sym: recv() + ".Note", Args: []*RE{lit("int64", strconv.Itoa(g.noteN))}}})
	}
	if r.chance(1, 3) {
		pool = append(pool, &RS{Op: "call", E: &RE{Op: "call", Kind: "method", Sym: "S.Echo32", Args: []*RE{g.smallNum()}}})
	}
	for k, n := 0, r.intn(4); k < n; k++ {
		g.noteN++
		pool = append(pool, &RS{Op: "call", E: &RE{Op: "call", Kind: "three", Sym: recv() + ".Sub.Mark", Args: []*RE{lit("int64", strconv.Itoa(g.noteN))}}})
	}
	if r.chance(1, 8) || (g.illP > 50 && r.chance(1, 3)) {
		// a call whose argument faults by itself (an element access reflect refuses): the child's own
		// goroutine must contain it
		bad := []*RE{
			{Op: "idx", Sym: "AP", Key: &RKey{"int", "9"}},
			{Op: "idx", Sym: "A", Key: &RKey{"str", "x"}},
			{Op: "idx", Sym: "NOPE", Key: &RKey{"int", "1"}},
			{Op: "idx", Sym: "v_int", Key: &RKey{"int", "0"}},
			{Op: "idx", Sym: "M", Key: &RKey{"var", "nokey"}},
		}[r.intn(5)]
		g.noteN++
		switch r.intn(3) {
		case 0:
			pool = append(pool, &RS{Op: "call", E: &RE{Op: "call", Kind: "func", Sym: "obsC", Args: []*RE{bad}}})
		case 1:
			pool = append(pool, &RS{Op: "call", E: &RE{Op: "call", Kind: "method", Sym: "S.Note", Args: []*RE{bad}}})
		default:
			pool = append(pool, &RS{Op: "call", E: &RE{Op: "call", Kind: "three", Sym: "S.Sub.Mark", Args: []*RE{bad}}})
		}
	} else if r.chance(1, 6) || (g.illP > 50 && r.chance(1, 2)) {
		// (at most one failing child per block: which error of several is reported depends on the schedule)
		switch r.intn(6) {
		case 5:
			// an assignment whose right-hand side panics in reflect (`!` on a number)
			pool = append(pool, &RS{Op: "assign", Sym: "=", Tgt: &RE{Op: "var", Sym: "c2"}, E: mkNot(&RE{Op: "var", Sym: "v_int64"})})
		case 4:
			pool = append(pool, &RS{Op: "call", E: &RE{Op: "call", Kind: "method", Sym: "S.Blow", Args: []*RE{lit("int64", "1")}}})
		case 0:
			pool = append(pool, &RS{Op: "call", E: &RE{Op: "call", Kind: "func", Sym: "boom"}})
		case 1:
			pool = append(pool, &RS{Op: "assign", Sym: "=", Tgt: &RE{Op: "var", Sym: "c2"}, E: &RE{Op: "var", Sym: "nolocal.f"}})
		case 2:
			pool = append(pool, &RS{Op: "assign", Sym: "=", Tgt: &RE{Op: "var", Sym: "S.Nope"}, E: g.smallNum()})
		default:
			pool = append(pool, &RS{Op: "call", E: &RE{Op: "call", Kind: "func", Sym: "nofunc", Args: []*RE{g.smallNum()}}})
		}
	}
	shuffled := make([]*RS, len(pool))
	for i, j := range r.perm(len(pool)) {
		shuffled[i] = pool[j]
	}
	// ConcStatement keeps its children grouped (assignments, function calls, method calls); the
	// children are independent, so the generator writes them in that order
	var items []*RS
	for _, pass := range []string{"assign", "func", "method", "three"} {
		for _, it := range shuffled {
			k := it.Op
			if k == "call" {
				k = it.E.Kind
			}
			if k == pass {
				items = append(items, it)
			}
		}
	}
	if r.chance(1, 8) {
		// a block made of children of one kind only (the other three launchers have nothing to start)
		only := []string{"three", "method", "func", "assign"}[r.intn(4)]
		var one []*RS
		for _, it := range items {
			k := it.Op
			if k == "call" {
				k = it.E.Kind
			}
			if k == only {
				one = append(one, it)
			}
		}
		if len(one) > 0 {
			items = one
		}
	}
	return &RS{Op: "conc", Items: items}
}
