module verif/harness

go 1.13

require github.com/bilibili/gengine v0.0.0

replace github.com/bilibili/gengine => /repo
