package main

// splitmix64: every random choice of a run derives from VERIF_SEED through this stream.
type rng struct{ s uint64 }

// newRng scrambles the seed first: consecutive seeds must not give shifted copies of one stream.
func newRng(seed uint64) *rng {
	z := seed + 0x1234567
	z = (z ^ (z >> 30)) * 0xBF58476D1CE4E5B9
	z = (z ^ (z >> 27)) * 0x94D049BB133111EB
	z = z ^ (z >> 31)
	z = (z ^ (z >> 33)) * 0xFF51AFD7ED558CCD
	return &rng{s: z ^ (z >> 29)}
}

func (r *rng) next() uint64 {
	r.s += 0x9E3779B97F4A7C15
	z := r.s
	z = (z ^ (z >> 30)) * 0xBF58476D1CE4E5B9
	z = (z ^ (z >> 27)) * 0x94D049BB133111EB
	return z ^ (z >> 31)
}

func (r *rng) intn(n int) int {
	if n <= 0 {
		return 0
	}
	return int(r.next() % uint64(n))
}

func (r *rng) chance(num, den int) bool { return r.intn(den) < num }

func (r *rng) perm(n int) []int {
	p := make([]int, n)
	for i := range p {
		p[i] = i
	}
	for i := n - 1; i > 0; i-- {
		j := r.intn(i + 1)
		p[i], p[j] = p[j], p[i]
	}
	return p
}

func (r *rng) fork() *rng { return newRng(r.next()) }
