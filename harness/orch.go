package main

import (
	"fmt"
	"sort"
	"strings"
	"time"

	"github.com/bilibili/gengine/builder"
	"github.com/bilibili/gengine/context"
	"github.com/bilibili/gengine/engine"
)

// Orchestration scenario (C04 C05 C11 C12 C13 C14 and the engine-level part of C09):
// synthetic rules with a prescribed outcome, every Execute* method of engine.Gengine,
// goroutines driven through gates.

type orchRule struct {
	Name  string `json:"name"`
	Sal   int64  `json:"sal"`
	Flag  bool   `json:"flag"`
	Val   *int64 `json:"val"`
	Fails bool   `json:"fails"`
	Stop  bool   `json:"stop"`
	Beh   string `json:"beh"`
}

type orchObs struct {
	Outcome string          `json:"outcome"` // ok | err | panic | hang
	Events  [][2]string     `json:"events"`
	Results [][2]interface{} `json:"results"`
	Note    string          `json:"note,omitempty"`
}

type orchCase struct {
	I      int             `json:"i"`
	Scn    string          `json:"scn"`
	Method string          `json:"method"`
	B      bool            `json:"b"`
	N      int             `json:"n"`
	M      int             `json:"m"`
	Names  []string        `json:"names"`
	Dag    [][]string      `json:"dag"`
	Prev   [][2]interface{} `json:"prev"`
	Rules  []orchRule      `json:"rules"`
	Sorted []string        `json:"sorted"`
	Strat  int             `json:"strategy"`
	Text   string          `json:"text"`
	Obs    orchObs         `json:"obs"`
}

var orchMethods = []string{
	"Execute", "ExecuteWithStopTagDirect", "ExecuteConcurrent", "ExecuteMixModel",
	"ExecuteMixModelWithStopTagDirect", "ExecuteSelectedRules", "ExecuteSelectedRulesWithControl",
	"ExecuteSelectedRulesWithControlAsGivenSortedName", "ExecuteSelectedRulesWithControlAndStopTag",
	"ExecuteSelectedRulesWithControlAndStopTagAsGivenSortedName", "ExecuteSelectedRulesConcurrent",
	"ExecuteSelectedRulesMixModel", "ExecuteInverseMixModel", "ExecuteSelectedRulesInverseMixModel",
	"ExecuteNSortMConcurrent", "ExecuteNConcurrentMSort", "ExecuteNConcurrentMConcurrent",
	"ExecuteSelectedNSortMConcurrent", "ExecuteSelectedNConcurrentMSort",
	"ExecuteSelectedNConcurrentMConcurrent", "ExecuteDAGModel",
}

func isSelected(m string) bool { return strings.Contains(m, "Selected") }
func isNM(m string) bool {
	return strings.Contains(m, "NSortM") || strings.Contains(m, "NConcurrentM")
}

func ruleText(r orchRule) string {
	var b strings.Builder
	fmt.Fprintf(&b, "rule \"%s\" \"d-%s\" salience %d\nbegin\n", r.Name, r.Name, r.Sal)
	fmt.Fprintf(&b, "gate(\"%s\", 0)\n", r.Name)
	if r.Stop {
		b.WriteString("stag.StopTag = true\n")
	}
	fmt.Fprintf(&b, "gate(\"%s\", 1)\n", r.Name)
	switch r.Beh {
	case "silent":
	case "ret":
		fmt.Fprintf(&b, "return %d\n", *r.Val)
	case "bare":
		b.WriteString("return\n")
	case "fail":
		b.WriteString("zz = 1 / 0\n")
	case "failret": // a `return` whose expression fails
		b.WriteString("return 1 / 0\n")
	case "retafterfail": // never reaches the return
		b.WriteString("zz = 1 / 0\nreturn 5\n")
	case "straybreak": // break / continue outside any loop: the rule fails without having returned
		b.WriteString("if true {\n break\n}\nreturn 6\n")
	case "straycont":
		b.WriteString("continue\n")
	case "bigfail": // fails with a diagnostic of several MiB: recording the error takes the engine milliseconds
		b.WriteString("boom()\n")
	}
	b.WriteString("end\n")
	return b.String()
}

func genOrchCase(r *rng, i int, methods []string) *orchCase {
	c := &orchCase{I: i, Scn: "orch"}
	c.Method = methods[r.intn(len(methods))]
	k := 1 + r.intn(7)
	if r.chance(1, 12) {
		k = 1
	}
	wide := r.chance(1, 6)
	for j := 0; j < k; j++ {
		ru := orchRule{Name: fmt.Sprintf("r%d", j)}
		if wide {
			ru.Sal = int64(r.next())
		} else {
			ru.Sal = int64(r.intn(5)) - 2
		}
		p := r.intn(100)
		switch {
		case p < 30:
			ru.Beh = "ret"
		case p < 45:
			ru.Beh = "silent"
		case p < 55:
			ru.Beh = "bare"
		case p < 75:
			ru.Beh = "fail"
		case p < 86:
			ru.Beh = "failret"
		case p < 93:
			ru.Beh = "retafterfail"
		case p < 96:
			ru.Beh = "straybreak"
		case p < 98:
			ru.Beh = "straycont"
		default:
			ru.Beh = "bigfail"
		}
		// fewer failures in half of the cases so that later stages are reached
		if r.chance(1, 2) && (ru.Beh == "fail" || ru.Beh == "failret" || ru.Beh == "retafterfail" || ru.Beh == "straybreak" || ru.Beh == "straycont" || ru.Beh == "bigfail") && r.chance(2, 3) {
			ru.Beh = "ret"
		}
		switch ru.Beh {
		case "ret":
			v := int64(r.intn(1000))
			ru.Val, ru.Flag = &v, true
		case "bare":
			ru.Flag = true
		case "fail":
			ru.Fails = true
		case "failret":
			ru.Fails = true // flag: see the P-6 discussion in DESIGN.md; the spec says no entry
		case "retafterfail", "straybreak", "straycont", "bigfail":
			ru.Fails = true
		}
		if strings.Contains(c.Method, "StopTag") && r.chance(1, 4) {
			ru.Stop = true
		}
		c.Rules = append(c.Rules, ru)
	}
	c.B = r.chance(1, 2)
	// n, m
	if isNM(c.Method) {
		if r.chance(4, 5) && k >= 2 {
			c.N = 1 + r.intn(k-1)
			c.M = 1 + r.intn(k-c.N)
		} else {
			c.N = r.intn(k+3) - 1
			c.M = r.intn(k+3) - 1
		}
	}
	// names
	if isSelected(c.Method) {
		p := r.perm(k)
		cnt := r.intn(k + 1)
		if isNM(c.Method) && r.chance(4, 5) {
			cnt = c.N + c.M
			if cnt > k {
				cnt = k
			}
			if cnt < 0 {
				cnt = 0
			}
		}
		for _, idx := range p[:cnt] {
			c.Names = append(c.Names, c.Rules[idx].Name)
		}
		if r.chance(1, 5) {
			pos := r.intn(len(c.Names) + 1)
			c.Names = append(c.Names[:pos], append([]string{"nosuch"}, c.Names[pos:]...)...)
		}
	}
	if c.Names == nil {
		c.Names = []string{}
	}
	// dag
	c.Dag = [][]string{}
	if c.Method == "ExecuteDAGModel" {
		layers := r.intn(5)
		for l := 0; l < layers; l++ {
			w := r.intn(4)
			layer := []string{}
			for x := 0; x < w; x++ {
				if r.chance(1, 8) {
					layer = append(layer, "nosuch")
				} else {
					layer = append(layer, c.Rules[r.intn(k)].Name)
				}
			}
			c.Dag = append(c.Dag, layer)
		}
	}
	c.Strat = r.intn(3)
	// rule text in random order
	var tb strings.Builder
	for _, idx := range r.perm(k) {
		tb.WriteString(ruleText(c.Rules[idx]))
	}
	c.Text = tb.String()
	return c
}

func callOrch(g *engine.Gengine, rb *builder.RuleBuilder, c *orchCase, stag *engine.Stag) error {
	switch c.Method {
	case "Execute":
		return g.Execute(rb, c.B)
	case "ExecuteWithStopTagDirect":
		return g.ExecuteWithStopTagDirect(rb, c.B, stag)
	case "ExecuteConcurrent":
		return g.ExecuteConcurrent(rb)
	case "ExecuteMixModel":
		return g.ExecuteMixModel(rb)
	case "ExecuteMixModelWithStopTagDirect":
		return g.ExecuteMixModelWithStopTagDirect(rb, stag)
	case "ExecuteSelectedRules":
		return g.ExecuteSelectedRules(rb, c.Names)
	case "ExecuteSelectedRulesWithControl":
		return g.ExecuteSelectedRulesWithControl(rb, c.B, c.Names)
	case "ExecuteSelectedRulesWithControlAsGivenSortedName":
		return g.ExecuteSelectedRulesWithControlAsGivenSortedName(rb, c.B, c.Names)
	case "ExecuteSelectedRulesWithControlAndStopTag":
		return g.ExecuteSelectedRulesWithControlAndStopTag(rb, c.B, stag, c.Names)
	case "ExecuteSelectedRulesWithControlAndStopTagAsGivenSortedName":
		return g.ExecuteSelectedRulesWithControlAndStopTagAsGivenSortedName(rb, c.B, stag, c.Names)
	case "ExecuteSelectedRulesConcurrent":
		return g.ExecuteSelectedRulesConcurrent(rb, c.Names)
	case "ExecuteSelectedRulesMixModel":
		return g.ExecuteSelectedRulesMixModel(rb, c.Names)
	case "ExecuteInverseMixModel":
		return g.ExecuteInverseMixModel(rb)
	case "ExecuteSelectedRulesInverseMixModel":
		return g.ExecuteSelectedRulesInverseMixModel(rb, c.Names)
	case "ExecuteNSortMConcurrent":
		return g.ExecuteNSortMConcurrent(c.N, c.M, rb, c.B)
	case "ExecuteNConcurrentMSort":
		return g.ExecuteNConcurrentMSort(c.N, c.M, rb, c.B)
	case "ExecuteNConcurrentMConcurrent":
		return g.ExecuteNConcurrentMConcurrent(c.N, c.M, rb, c.B)
	case "ExecuteSelectedNSortMConcurrent":
		return g.ExecuteSelectedNSortMConcurrent(c.N, c.M, rb, c.B, c.Names)
	case "ExecuteSelectedNConcurrentMSort":
		return g.ExecuteSelectedNConcurrentMSort(c.N, c.M, rb, c.B, c.Names)
	case "ExecuteSelectedNConcurrentMConcurrent":
		return g.ExecuteSelectedNConcurrentMConcurrent(c.N, c.M, rb, c.B, c.Names)
	case "ExecuteDAGModel":
		return g.ExecuteDAGModel(rb, c.Dag)
	}
	panic("unknown method " + c.Method)
}

func resultPairs(m map[string]interface{}) [][2]interface{} {
	keys := make([]string, 0, len(m))
	for k := range m {
		keys = append(keys, k)
	}
	sort.Strings(keys)
	out := [][2]interface{}{}
	for _, k := range keys {
		out = append(out, [2]interface{}{k, m[k]})
	}
	return out
}

type orchEnv struct {
	ctl  *gateCtl
	stag *engine.Stag
	rb   *builder.RuleBuilder
	g    *engine.Gengine
}

var bigDiagnostic = strings.Repeat("diagnostic ", 400000)

// prepOrchCase builds the rules with the real builder, measures every rule's own outcome and
// (optionally) performs a previous call on the same engine.  A fresh engine has a nil result map.
func prepOrchCase(c *orchCase, usePrev bool) *orchEnv {
	ctl := newGateCtl()
	stag := &engine.Stag{}
	dc := context.NewDataContext()
	dc.Add("gate", ctl.gate)
	dc.Add("stag", stag)
	dc.Add("boom", func() { panic(bigDiagnostic) })
	rb := builder.NewRuleBuilder(dc)
	if err := rb.BuildRuleFromString(c.Text); err != nil {
		c.Obs = orchObs{Outcome: "builderr", Note: err.Error()}
		return nil
	}
	for _, re := range rb.Kc.SortRules {
		c.Sorted = append(c.Sorted, re.RuleName)
	}
	// measure the outcome of every rule on its own (the orchestration model takes it as input)
	ctl.passthrough = true
	for i := range c.Rules {
		re := rb.Kc.RuleEntities[c.Rules[i].Name]
		stag.StopTag = false
		v, e, flag := re.Execute(dc)
		c.Rules[i].Flag = flag
		c.Rules[i].Fails = e != nil
		c.Rules[i].Stop = stag.StopTag
		c.Rules[i].Val = nil
		if iv, ok := v.(int64); ok {
			c.Rules[i].Val = &iv
		}
	}
	stag.StopTag = false
	ctl.passthrough = false
	g := engine.NewGengine()
	c.Prev = nil
	if usePrev {
		// a previous call on the same engine: every rule that returns leaves an entry
		ctl.passthrough = true
		_ = g.Execute(rb, true)
		m, _ := g.GetRulesResultMap()
		c.Prev = resultPairs(m)
		stag.StopTag = false
		ctl.passthrough = false
	}
	return &orchEnv{ctl, stag, rb, g}
}

func runOrchCase(r *rng, c *orchCase, env *orchEnv) {
	ctl, stag, rb, g := env.ctl, env.stag, env.rb, env.g
	res, hung := ctl.drive(r, c.Strat, 600*time.Microsecond, func() error { return callOrch(g, rb, c, stag) })
	obs := orchObs{Events: [][2]string{}}
	ctl.mu.Lock()
	for _, e := range ctl.log {
		obs.Events = append(obs.Events, [2]string{e.Kind, e.Name})
	}
	ctl.mu.Unlock()
	switch {
	case hung:
		obs.Outcome = "hang"
		ctl.releaseAll()
	case res.panicked != nil:
		obs.Outcome = "panic"
		obs.Note = fmt.Sprint(res.panicked)
	case res.err != nil:
		obs.Outcome = "err"
	default:
		obs.Outcome = "ok"
	}
	m, _ := g.GetRulesResultMap()
	obs.Results = resultPairs(m)
	c.Obs = obs
}
