package main

import (
	"bufio"
	"encoding/json"
	"flag"
	"fmt"
	"os"
	"runtime"
	"strings"
	"time"
)

// verif harness: runs the real gengine code (current /repo working tree, -tags verif) on
// generated cases and prints one JSON line per case: the case and what was observed.
// A line `#begin <i>` is flushed before each case so that a crash of the process (a panic
// in a goroutine started by gengine) can be attributed to a case by the driver script.

func mustReadJSON(path string, v interface{}) {
	b, err := os.ReadFile(path)
	if err != nil {
		fmt.Fprintln(os.Stderr, err)
		os.Exit(2)
	}
	// a replay file may wrap the case: {"case": {...}, ...}
	var wrap struct {
		Case json.RawMessage `json:"case"`
	}
	if json.Unmarshal(b, &wrap) == nil && len(wrap.Case) > 0 {
		b = wrap.Case
	}
	if err := json.Unmarshal(b, v); err != nil {
		fmt.Fprintln(os.Stderr, err)
		os.Exit(2)
	}
}

func main() {
	scn := flag.String("scn", "orch", "scenario")
	seed := flag.Uint64("seed", 1, "VERIF_SEED")
	n := flag.Int("n", 100, "number of cases")
	start := flag.Int("start", 0, "first case index")
	only := flag.Int("only", -1, "run only this case index")
	filter := flag.String("filter", "", "scenario specific filter (e.g. comma separated method names)")
	flag.String("replay", "", "re-run the case stored in this JSON file")
	flag.Parse()
	w := bufio.NewWriterSize(os.Stdout, 1<<20)
	defer w.Flush()
	emit := func(v interface{}) {
		b, err := json.Marshal(v)
		if err != nil {
			panic(err)
		}
		w.Write(b)
		w.WriteByte('\n')
		w.Flush()
	}
	begin := func(v interface{}) {
		b, err := json.Marshal(v)
		if err != nil {
			panic(err)
		}
		w.WriteString("#begin ")
		w.Write(b)
		w.WriteByte('\n')
		w.Flush()
	}
	replay := flag.Lookup("replay").Value.String()
	lo, hi := *start, *n
	if *only >= 0 {
		lo, hi = *only, *only+1
	}
	var flt []string
	if *filter != "" {
		flt = strings.Split(*filter, ",")
	}
	switch *scn {
	case "orch":
		methods := orchMethods
		if flt != nil {
			methods = flt
		}
		if replay != "" {
			var c orchCase
			mustReadJSON(replay, &c)
			usePrev := c.Prev != nil
			c.Sorted, c.Obs = nil, orchObs{}
			r := newRng(*seed*1000003 + uint64(c.I))
			if env := prepOrchCase(&c, usePrev); env != nil {
				begin(&c)
				runOrchCase(r, &c, env)
			}
			emit(&c)
			return
		}
		for i := lo; i < hi; i++ {
			r := newRng(*seed*1000003 + uint64(i))
			c := genOrchCase(r, i, methods)
			if env := prepOrchCase(c, r.chance(1, 2)); env != nil {
				begin(c)
				runOrchCase(r, c, env)
			}
			emit(c)
		}
	case "kc":
		if replay != "" {
			var c kcCase
			mustReadJSON(replay, &c)
			begin(&c)
			runKcCase(&c)
			emit(&c)
			return
		}
		maxOps := 10
		if *filter == "long" {
			maxOps = 40
		}
		for i := lo; i < hi; i++ {
			r := newRng(*seed*1000003 + uint64(i))
			c := genKcCase(r, i, maxOps)
			begin(c)
			runKcCase(c)
			emit(c)
		}
	case "pool":
		mode := "mgmt"
		if *filter != "" {
			mode = *filter
		}
		if replay != "" {
			var c poolCase
			mustReadJSON(replay, &c)
			for k := range c.Ops {
				c.Ops[k].Ok, c.Ops[k].Err, c.Ops[k].Panic, c.Ops[k].Execs = false, "", "", nil
				c.Ops[k].Queries = pQueries{}
			}
			c.Execs, c.Probe, c.Peak, c.Peak2, c.Done, c.Mutated = nil, nil, 0, 0, 0, false
			begin(&c)
			runPoolCase(&c)
			emit(&c)
			return
		}
		base := runtime.NumGoroutine()
		for i := lo; i < hi; i++ {
			r := newRng(*seed*1000003 + uint64(i))
			c := genPoolCase(r, i, mode)
			begin(c)
			runPoolCase(c)
			emit(c)
			// requests that never got an instance keep spinning in getGengine: ask for a fresh
			// process rather than let them eat the processors of the cases to come
			if runtime.NumGoroutine() > base+6 {
				time.Sleep(200 * time.Millisecond)
				if runtime.NumGoroutine() > base+6 {
					os.Exit(3)
				}
			}
		}
	case "compile":
		if replay != "" {
			var c compileCase
			mustReadJSON(replay, &c)
			c.Results = nil
			c.Front.Rules = nil
			begin(&c)
			runCompileCase(&c)
			emit(&c)
			return
		}
		for i := lo; i < hi; i++ {
			r := newRng(*seed*1000003 + uint64(i))
			c := genCompileCase(r, i)
			begin(c)
			runCompileCase(c)
			emit(c)
		}
	case "eval":
		mode := "stmt"
		if *filter != "" {
			mode = *filter
		}
		if replay != "" {
			var c evalCase
			mustReadJSON(replay, &c)
			// the environment is the recorded one; results are recomputed
			h := &hostEnv{specs: c.Env}
			for i := range h.specs {
				for k, f := range h.specs[i].Fields {
					if m, ok := f[1].(map[string]interface{}); ok {
						h.specs[i].Fields[k][1] = JVal{fmt.Sprint(m["k"]), fmt.Sprint(m["v"])}
					}
				}
			}
			h.materialise()
			for k := range c.Rules {
				c.Rules[k].Result = evalResult{}
				c.Rules[k].Ast = nil
			}
			c.Build = ""
			begin(&c)
			runEvalCase(&c, h)
			emit(&c)
			return
		}
		for i := lo; i < hi; i++ {
			r := newRng(*seed*1000003 + uint64(i))
			c, h := genEvalCase(r, i, mode)
			begin(c)
			runEvalCase(c, h)
			emit(c)
			for _, ru := range c.Rules {
				if ru.Result.Outcome == "hang" {
					// the runaway execution is still running in this process: ask for a fresh one
					os.Exit(3)
				}
			}
		}
	case "lex":
		if replay != "" {
			var c lexCase
			mustReadJSON(replay, &c)
			c.Toks, c.Errs, c.Panic = nil, nil, ""
			begin(&c)
			runLexCase(&c)
			emit(&c)
			return
		}
		for i := lo; i < hi; i++ {
			r := newRng(*seed*1000003 + uint64(i))
			c := genLexCase(r, i)
			begin(c)
			runLexCase(c)
			emit(c)
		}
	default:
		fmt.Fprintf(os.Stderr, "unknown scenario %s\n", *scn)
		os.Exit(2)
	}
}
