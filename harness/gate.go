package main

import (
	"os"
	"sync"
	"time"
)

// Gate controller: rule bodies call gate(name, 0) first and gate(name, 1) last.  In
// controlled mode every call blocks until the controller grants it; the controller waits for
// quiescence (no new arrival during the settle interval), then grants one waiting party
// chosen by the PRNG.  Verdicts rest on the logged facts only:
//   S name = the rule arrived at its start gate (it has started),
//   E name = its end gate was granted (it is about to finish).

type party struct {
	name  string
	phase int64
	ch    chan struct{}
}

type gateEv struct {
	Kind string // "S" or "E"
	Name string
}

type gateCtl struct {
	mu          sync.Mutex
	passthrough bool
	waiting     []*party
	log         []gateEv
	arrived     chan struct{}
	onStart     func(name string) // optional side effect when a rule starts (called in rule goroutine)
}

func newGateCtl() *gateCtl {
	return &gateCtl{arrived: make(chan struct{}, 1024)}
}

// noGate (VERIF_NOGATE=1): gates are no-ops and take no lock, so that the harness adds no
// synchronisation between the engine's goroutines (race-detector runs)
var noGate = os.Getenv("VERIF_NOGATE") == "1"

func (g *gateCtl) gate(name string, phase int64) {
	if noGate {
		return
	}
	g.mu.Lock()
	if g.passthrough {
		g.mu.Unlock()
		return
	}
	p := &party{name: name, phase: phase, ch: make(chan struct{})}
	g.waiting = append(g.waiting, p)
	if phase == 0 {
		g.log = append(g.log, gateEv{"S", name})
	}
	g.mu.Unlock()
	select {
	case g.arrived <- struct{}{}:
	default:
	}
	<-p.ch
}

type callResult struct {
	err      error
	panicked interface{}
}

// drive runs call() in a goroutine and schedules gated parties until it returns.
// strategy 0: grant starts before ends; 1: uniformly random; 2: ends before starts (most sequential)
func (g *gateCtl) drive(r *rng, strategy int, settle time.Duration, call func() error) (callResult, bool) {
	done := make(chan callResult, 1)
	go func() {
		var res callResult
		defer func() {
			if p := recover(); p != nil {
				res.panicked = p
			}
			done <- res
		}()
		res.err = call()
	}()
	idle := 0
	timer := time.NewTimer(settle)
	defer timer.Stop()
	for {
		select {
		case res := <-done:
			return res, false
		case <-g.arrived:
			if !timer.Stop() {
				select {
				case <-timer.C:
				default:
				}
			}
			timer.Reset(settle)
			idle = 0
		case <-timer.C:
			g.mu.Lock()
			if len(g.waiting) == 0 {
				g.mu.Unlock()
				idle++
				if time.Duration(idle)*settle > 8*time.Second {
					return callResult{}, true // hang
				}
				timer.Reset(settle)
				continue
			}
			idle = 0
			var cand []int
			pref := int64(-1)
			if strategy == 0 {
				pref = 0
			} else if strategy == 2 {
				pref = 1
			}
			if pref >= 0 {
				for i, p := range g.waiting {
					if p.phase == pref {
						cand = append(cand, i)
					}
				}
			}
			if len(cand) == 0 {
				for i := range g.waiting {
					cand = append(cand, i)
				}
			}
			k := cand[r.intn(len(cand))]
			p := g.waiting[k]
			g.waiting = append(g.waiting[:k], g.waiting[k+1:]...)
			if p.phase == 1 {
				g.log = append(g.log, gateEv{"E", p.name})
			}
			g.mu.Unlock()
			close(p.ch)
			timer.Reset(settle)
		}
	}
}

// release everything (used after a hang so that leaked goroutines can finish)
func (g *gateCtl) releaseAll() {
	g.mu.Lock()
	g.passthrough = true
	w := g.waiting
	g.waiting = nil
	g.mu.Unlock()
	for _, p := range w {
		close(p.ch)
	}
}
