package main

// Scenario "pool" (C06 C07 C16 C17): the real GenginePool driven by sequences of management
// operations and by concurrent requests that park inside their rules.
//   mgmt : sequential management operations; after each one the queries and one execution on every
//          engine instance (max simultaneous parked requests)
//   cap  : more clients than instances, failing requests, capacity after the storm
//   iso  : simultaneous requests with unique ids echo them into results and their own objects
//   upd  : executions racing with updates (from another goroutine and from inside a rule)

import (
	"fmt"
	"sort"
	"strings"
	"sync"
	"sync/atomic"
	"time"

	"github.com/bilibili/gengine/engine"
)

type pReq struct {
	Id   int64
	Out  int64
	Echo int64
	Fail bool
	Quiet bool // no rule of this request returns a value
	Fire bool // the first rule this request runs triggers the next planned update from inside the rule
}

type pRule struct {
	Name string `json:"name"`
	Sal  int64  `json:"sal"`
	Ver  int64  `json:"ver"`
}

type pExec struct {
	Id      int64            `json:"id"`
	Err     string           `json:"err,omitempty"`
	Panic   string           `json:"panic,omitempty"`
	Results map[string]int64 `json:"results"`
	Out     int64            `json:"out"`
	Echo    int64            `json:"echo"`
	Runs    int64            `json:"runs"` // rule executions started for this request
	Start   int64            `json:"start"` // logical clock at call
	End     int64            `json:"end"`   // logical clock at return
	Method  string           `json:"method,omitempty"`
	raw     map[string]interface{}
}

type pQueries struct {
	Exist  map[string]bool   `json:"exist"`
	Number int               `json:"number"`
	Sal    map[string]int64  `json:"sal"`
	Desc   map[string]string `json:"desc"`
	Model  int               `json:"model"`
}

type pOp struct {
	Op      string   `json:"op"` // full incr remove clear setModel
	Rules   []pRule  `json:"rules,omitempty"`
	Bad     bool     `json:"bad,omitempty"` // the text is not a valid rule text
	Names   []string `json:"names,omitempty"`
	Model   int      `json:"model,omitempty"`
	Ok      bool     `json:"ok"`
	Err     string   `json:"err,omitempty"`
	Panic   string   `json:"panic,omitempty"`
	Queries pQueries `json:"queries"`
	Execs   []pExec  `json:"execs"`
	Start   int64    `json:"start,omitempty"`
	End     int64    `json:"end,omitempty"`
	Inside  bool     `json:"inside,omitempty"` // issued from inside a running rule
}

type poolCase struct {
	I     int     `json:"i"`
	Scn   string  `json:"scn"`
	Mode  string  `json:"mode"`
	Min   int64   `json:"min"`
	Max   int64   `json:"max"`
	Model int     `json:"model"`
	Init  []pRule `json:"init"`
	Ops   []pOp   `json:"ops"`
	// cap
	Clients  int     `json:"clients,omitempty"`
	Warm     int     `json:"warm,omitempty"` // sequential requests before the simultaneous ones
	ClearWarm int    `json:"clearWarm,omitempty"` // … and requests against the cleared pool, which is then filled again
	Peak     int     `json:"peak,omitempty"`
	Done     int     `json:"done,omitempty"`
	Peak2    int     `json:"peak2,omitempty"`
	Execs    []pExec `json:"execs,omitempty"`
	Execs2   []pExec `json:"execs2,omitempty"`  // second round (cap) / requests through other entry points (iso)
	Probe    *pExec  `json:"probe,omitempty"`
	Probes   []pExec `json:"probes,omitempty"` // later requests that inject nothing / select nothing
	Mutated  bool    `json:"mutated,omitempty"` // a returned result map changed after the call returned
	Note     string  `json:"note,omitempty"`
	BuildErr string  `json:"buildErr,omitempty"`
}

var pNames = []string{"a", "b", "c", "d", "e", "f"}

func pRuleText(r pRule, body string) string {
	return fmt.Sprintf("rule \"%s\" \"v%d\" salience %d\nbegin\n%s if q.Quiet {\n  q.Echo = q.Id\n } else {\n  return %d * 1000 + q.Id\n }\nend\n", r.Name, r.Ver, r.Sal, body, r.Ver)
}

const stdBody = " ran(q.Id)\n q.Out = q.Id\n if q.Fire {\n  upd(q.Id)\n }\n park(q.Id)\n if q.Fail {\n  boom()\n }\n q.Echo = q.Id\n"

func pText(rules []pRule, body string) string {
	var sb strings.Builder
	for _, r := range rules {
		sb.WriteString(pRuleText(r, body))
	}
	return sb.String()
}

func genPRules(r *rng, n int, ver int64) []pRule {
	var out []pRule
	for _, i := range r.perm(len(pNames))[:n] {
		out = append(out, pRule{pNames[i], int64(r.intn(5)) - 2, ver})
	}
	return out
}

// ---- parking -------------------------------------------------------------------------------

type parker struct {
	mu      sync.Mutex
	parked  map[int64]bool
	want    int
	allIn   chan struct{}
	release chan struct{}
	open    bool
	peak    int
	now     int
}

func newParker(want int) *parker {
	return &parker{parked: map[int64]bool{}, want: want, allIn: make(chan struct{}), release: make(chan struct{})}
}

func (p *parker) park(id int64) {
	p.mu.Lock()
	if p.open || p.parked[id] {
		p.mu.Unlock()
		return
	}
	p.parked[id] = true
	p.now++
	if p.now > p.peak {
		p.peak = p.now
	}
	if len(p.parked) == p.want {
		close(p.allIn)
	}
	rel := p.release
	p.mu.Unlock()
	select {
	case <-rel:
	case <-time.After(5 * time.Second):
	}
	p.mu.Lock()
	p.now--
	p.mu.Unlock()
}

// gone: a request that returned without ever reaching a rule still counts as arrived
func (p *parker) gone(id int64) {
	p.mu.Lock()
	if !p.open && !p.parked[id] {
		p.parked[id] = true
		if len(p.parked) == p.want {
			close(p.allIn)
		}
	}
	p.mu.Unlock()
}

func (p *parker) openGate() {
	p.mu.Lock()
	if !p.open {
		p.open = true
		close(p.release)
	}
	p.mu.Unlock()
}

type poolHost struct {
	pk    atomic.Value // *parker
	clock int64
	pool  *engine.GenginePool
	max   int
	upd   func(id int64) // what a rule's upd(id) call does
	runs  sync.Map       // request id -> *int64: rule executions started on behalf of the request
}

// ran counts one rule execution of request id (called first thing in every rule body)
func (h *poolHost) ran(id int64) {
	v, _ := h.runs.LoadOrStore(id, new(int64))
	atomic.AddInt64(v.(*int64), 1)
}

// takeRuns returns and forgets the number of rule executions counted for request id
func (h *poolHost) takeRuns(id int64) int64 {
	v, ok := h.runs.LoadAndDelete(id)
	if !ok {
		return 0
	}
	return atomic.LoadInt64(v.(*int64))
}

func (h *poolHost) tick() int64 { return atomic.AddInt64(&h.clock, 1) }

func (h *poolHost) apis() map[string]interface{} {
	return map[string]interface{}{
		"park": func(id int64) { h.pk.Load().(*parker).park(id) },
		"boom": func() { panic("boom") },
		"ran":  h.ran,
		"upd": func(id int64) {
			if h.upd != nil {
				h.upd(id)
			}
		},
	}
}

func valuesOf(m map[string]interface{}) map[string]int64 {
	out := map[string]int64{}
	for k, v := range m {
		out[k] = int64Of(v)
	}
	return out
}

// one request through the pool's model-following entry point
func (h *poolHost) request(id int64, fail bool, inject bool) pExec {
	q := &pReq{Id: id, Fail: fail}
	data := map[string]interface{}{}
	if inject {
		data["q"] = q
	}
	ex := pExec{Id: id, Start: h.tick()}
	func() {
		defer func() {
			if p := recover(); p != nil {
				ex.Panic = fmt.Sprint(p)
			}
		}()
		e, m := h.pool.ExecuteRulesWithMultiInputWithSpecifiedEM(data)
		if e != nil {
			ex.Err = e.Error()
			if len(ex.Err) > 160 {
				ex.Err = ex.Err[:160]
			}
		}
		ex.Results = valuesOf(m)
		ex.raw = m
	}()
	ex.End = h.tick()
	ex.Out, ex.Echo = q.Out, q.Echo
	ex.Runs = h.takeRuns(id)
	return ex
}

var updMethods = []string{"em", "sort", "conc", "mix", "inv", "nsmc", "ncms", "ncmc", "dag", "sel"}

// a request through another entry point of the pool
func (h *poolHost) requestVia(how string, id int64) pExec {
	return h.requestWith(how, &pReq{Id: id}, nil)
}

func (h *poolHost) requestWith(how string, q *pReq, names []string) pExec {
	id := q.Id
	ex := pExec{Id: id, Start: h.tick(), Method: how}
	func() {
		defer func() {
			if p := recover(); p != nil {
				ex.Panic = fmt.Sprint(p)
			}
		}()
		var e error
		var m map[string]interface{}
		switch how {
		case "reqresp":
			e, m = h.pool.ExecuteRulesWithSpecifiedEM("", nil, "q", q)
		case "selected-none":
			e, m = h.pool.ExecuteSelectedRules(map[string]interface{}{"q": q}, []string{"nosuch"})
		case "dag-empty":
			e, m = h.pool.ExecuteDAGModel([][]string{}, map[string]interface{}{"q": q})
		case "dag-unknown":
			e, m = h.pool.ExecuteDAGModel([][]string{{"nosuch"}, {}, {"nosuch2", "nosuch"}}, map[string]interface{}{"q": q})
		default:
			data := map[string]interface{}{"q": q}
			n := len(names)
			switch how {
			case "em":
				e, m = h.pool.ExecuteRulesWithMultiInputWithSpecifiedEM(data)
			case "sort":
				e, m = h.pool.Execute(data, true)
			case "conc":
				e, m = h.pool.ExecuteConcurrent(data)
			case "mix":
				e, m = h.pool.ExecuteMixModel(data)
			case "inv":
				e, m = h.pool.ExecuteInverseMixModel(data)
			case "nsmc":
				e, m = h.pool.ExecuteNSortMConcurrent(1, n-1, true, data)
			case "ncms":
				e, m = h.pool.ExecuteNConcurrentMSort(1, n-1, true, data)
			case "ncmc":
				e, m = h.pool.ExecuteNConcurrentMConcurrent(1, n-1, true, data)
			case "dag":
				e, m = h.pool.ExecuteDAGModel([][]string{names[:1], names[1:]}, data)
			case "sel":
				e, m = h.pool.ExecuteSelectedRules(data, names)
			}
		}
		if e != nil {
			ex.Err = e.Error()
			if len(ex.Err) > 160 {
				ex.Err = ex.Err[:160]
			}
		}
		ex.Results = valuesOf(m)
		ex.raw = m
	}()
	ex.End = h.tick()
	ex.Out, ex.Echo = q.Out, q.Echo
	ex.Runs = h.takeRuns(id)
	return ex
}

// n simultaneous requests, all parked at once when the instances allow it
func (h *poolHost) round(ids []int64, failing map[int64]bool, settle time.Duration) ([]pExec, int) {
	want := len(ids)
	if h.max > 0 && want > h.max {
		want = h.max // no more than max requests can be inside their rules at once
	}
	pk := newParker(want)
	h.pk.Store(pk)
	res := make([]pExec, len(ids))
	var wg sync.WaitGroup
	for k, id := range ids {
		wg.Add(1)
		go func(k int, id int64) {
			defer wg.Done()
			res[k] = h.request(id, failing[id], true)
		}(k, id)
	}
	done := make(chan struct{})
	go func() { wg.Wait(); close(done) }()
	select {
	case <-pk.allIn:
		time.Sleep(20 * time.Millisecond) // would a surplus request get in too?
	case <-done:
	case <-time.After(settle):
	}
	pk.mu.Lock()
	peak := pk.peak
	pk.mu.Unlock()
	pk.openGate()
	select {
	case <-done:
	case <-time.After(10 * time.Second):
	}
	return res, peak
}

func (h *poolHost) queries() pQueries {
	q := pQueries{Exist: map[string]bool{}, Sal: map[string]int64{}, Desc: map[string]string{}}
	ex := h.pool.IsExist(pNames)
	for k, n := range pNames {
		q.Exist[n] = ex[k]
		if s, e := h.pool.GetRuleSalience(n); e == nil {
			q.Sal[n] = s
		}
		if d, e := h.pool.GetRuleDesc(n); e == nil {
			q.Desc[n] = d
		}
	}
	q.Number = h.pool.GetRulesNumber()
	q.Model = h.pool.GetExecModel()
	return q
}

func newPoolHost(c *poolCase) (*poolHost, error) {
	h := &poolHost{}
	h.pk.Store(newParker(0))
	p, e := engine.NewGenginePool(c.Min, c.Max, c.Model, pText(c.Init, stdBody), h.apis())
	if e != nil {
		return nil, e
	}
	h.pool = p
	h.max = int(c.Max)
	return h, nil
}

// ---- generation ----------------------------------------------------------------------------

func genPoolCase(r *rng, i int, mode string) *poolCase {
	c := &poolCase{I: i, Scn: "pool", Mode: mode}
	sizes := [][2]int64{{1, 2}, {2, 3}, {1, 3}, {2, 4}}
	sz := sizes[r.intn(len(sizes))]
	c.Min, c.Max = sz[0], sz[1]
	c.Model = 1 + r.intn(4)
	c.Init = genPRules(r, 1+r.intn(3), 0)
	switch mode {
	case "mgmt", "churn":
		n := 2 + r.intn(7)
		for k := 0; k < n; k++ {
			ver := int64(k + 1)
			switch p := r.intn(100); {
			case p < 22:
				c.Ops = append(c.Ops, pOp{Op: "full", Rules: genPRules(r, 1+r.intn(3), ver)})
			case p < 50:
				c.Ops = append(c.Ops, pOp{Op: "incr", Rules: genPRules(r, 1+r.intn(3), ver)})
			case p < 58:
				op := []string{"full", "incr"}[r.intn(2)]
				c.Ops = append(c.Ops, pOp{Op: op, Bad: true})
			case p < 76:
				var ns []string
				for _, j := range r.perm(len(pNames))[:r.intn(3)] {
					ns = append(ns, pNames[j])
				}
				if r.chance(1, 5) {
					ns = append(ns, "zz")
				}
				c.Ops = append(c.Ops, pOp{Op: "remove", Names: ns})
			case p < 90:
				c.Ops = append(c.Ops, pOp{Op: "clear"})
			default:
				c.Ops = append(c.Ops, pOp{Op: "setModel", Model: []int{1, 2, 3, 4, 0, 5, -1}[r.intn(7)]})
			}
		}
	case "upd":
		// distinct saliences: the order of the rules is the same in every version
		n := 3 + r.intn(3)
		c.Init = nil
		for k, j := range r.perm(len(pNames))[:n] {
			c.Init = append(c.Init, pRule{pNames[j], int64(10 - k), 0})
		}
		nu := 1 + r.intn(3)
		// one time in three the history also moves rules (an incremental update with another
		// salience) and removes rules: the container is then rebuilt at other positions
		moving := r.chance(1, 3)
		if moving {
			nu = 2 + r.intn(3)
		}
		sal := map[string]int64{}
		for _, ru := range c.Init {
			sal[ru.Name] = ru.Sal
		}
		for k := 0; k < nu; k++ {
			ver := int64(k + 1)
			op := pOp{Op: "full", Inside: r.chance(1, 2)}
			if r.chance(1, 2) {
				op.Op = "incr"
			}
			if moving && r.chance(1, 3) {
				// removal of one or two rules (never all of them)
				op.Op = "remove"
				for _, j := range r.perm(len(c.Init))[:1+r.intn(2)] {
					op.Names = append(op.Names, c.Init[j].Name)
				}
				c.Ops = append(c.Ops, op)
				continue
			}
			for _, ru := range c.Init {
				if op.Op == "full" || r.chance(2, 3) {
					if moving && op.Op == "incr" && r.chance(1, 3) {
						sal[ru.Name] = int64(20 + 10*k + len(op.Rules)) // to the front, still distinct
					}
					op.Rules = append(op.Rules, pRule{ru.Name, sal[ru.Name], ver})
				}
			}
			if len(op.Rules) == 0 {
				op.Rules = append(op.Rules, pRule{c.Init[0].Name, sal[c.Init[0].Name], ver})
			}
			c.Ops = append(c.Ops, op)
		}
		c.Clients = r.intn(1000) // selects the request methods
	case "cap":
		c.Clients = int(c.Max) + 1 + r.intn(4)
		c.Warm = r.intn(4)
		if r.chance(1, 3) {
			c.ClearWarm = 1 + r.intn(2*int(c.Max))
		}
	case "iso":
		c.Clients = 1 + r.intn(int(c.Max))
		c.Warm = r.intn(3)
	}
	return c
}

func badText(k int) string {
	return []string{"rule \"a\" begin return 1", "rule \"a\" \"x\" begin x = end", "garbage ###", "rule \"a\" \"x\" begin return 1 end rule \"a\" \"y\" begin return 2 end"}[k%4]
}

func (h *poolHost) applyOp(op *pOp, k int) {
	defer func() {
		if p := recover(); p != nil {
			op.Panic = fmt.Sprint(p)
			if len(op.Panic) > 160 {
				op.Panic = op.Panic[:160]
			}
		}
	}()
	var e error
	switch op.Op {
	case "full":
		if op.Bad {
			e = h.pool.UpdatePooledRules(badText(k))
		} else {
			e = h.pool.UpdatePooledRules(pText(op.Rules, stdBody))
		}
	case "incr":
		if op.Bad {
			e = h.pool.UpdatePooledRulesIncremental(badText(k))
		} else {
			e = h.pool.UpdatePooledRulesIncremental(pText(op.Rules, stdBody))
		}
	case "remove":
		e = h.pool.RemoveRules(op.Names)
	case "clear":
		h.pool.ClearPoolRules()
	case "setModel":
		e = h.pool.SetExecModel(op.Model)
	}
	op.Ok = e == nil
	if e != nil {
		op.Err = e.Error()
		if len(op.Err) > 160 {
			op.Err = op.Err[:160]
		}
	}
}

func runPoolCase(c *poolCase) {
	h, e := newPoolHost(c)
	if e != nil {
		c.BuildErr = e.Error()
		return
	}
	ids := func(base, n int) []int64 {
		var out []int64
		for k := 0; k < n; k++ {
			out = append(out, int64(base+k))
		}
		return out
	}
	for k := 0; k < c.Warm; k++ {
		// traffic below the pool's minimum: only resident instances are used and handed back
		h.pk.Store(newParker(0))
		h.pk.Load().(*parker).openGate()
		h.request(int64(900+k), false, true)
		time.Sleep(3 * time.Millisecond)
	}
	if c.ClearWarm > 0 {
		// requests against a cleared pool answer at once with an empty map — and must hand their
		// instance back like any other; afterwards the initial rules are installed again
		h.pool.ClearPoolRules()
		open := newParker(0)
		open.openGate()
		h.pk.Store(open)
		var names []string
		for _, ru := range c.Init {
			names = append(names, ru.Name)
		}
		hows := append(append([]string{}, updMethods...), "reqresp")
		for k := 0; k < c.ClearWarm; k++ {
			ex := h.requestWith(hows[(k+c.I)%len(hows)], &pReq{Id: int64(800 + k)}, names)
			if ex.Panic != "" || len(ex.Results) != 0 {
				c.BuildErr = fmt.Sprintf("request %s against the cleared pool: results %v panic %s", ex.Method, ex.Results, ex.Panic)
				return
			}
		}
		if e := h.pool.UpdatePooledRules(pText(c.Init, stdBody)); e != nil {
			c.BuildErr = "refill after clear: " + e.Error()
			return
		}
	}
	switch c.Mode {
	case "mgmt":
		for k := range c.Ops {
			op := &c.Ops[k]
			h.applyOp(op, k)
			if op.Panic != "" {
				return // the pool object is in an unknown state
			}
			func() {
				defer func() {
					if p := recover(); p != nil {
						op.Panic = "queries: " + fmt.Sprint(p)
					}
				}()
				op.Queries = h.queries()
			}()
			if op.Panic != "" {
				return
			}
			op.Execs, _ = h.round(ids(100+10*k, int(c.Max)), nil, 5*time.Second)
		}
	case "upd":
		var names []string
		for _, ru := range c.Init {
			names = append(names, ru.Name) // in salience order
		}
		next := 0
		var umu sync.Mutex
		fired := map[int64]bool{}
		apply := func(inside bool) {
			if next >= len(c.Ops) {
				return
			}
			op := &c.Ops[next]
			next++
			op.Start = h.tick()
			h.applyOp(op, 0)
			op.End = h.tick()
			op.Inside = inside
		}
		h.upd = func(id int64) {
			umu.Lock()
			defer umu.Unlock()
			if fired[id] {
				return
			}
			fired[id] = true
			apply(true)
		}
		open := newParker(0)
		open.openGate()
		sel := c.Clients
		pick := func() string { sel = sel*7 + 3; return updMethods[(sel/5)%len(updMethods)] }
		id := int64(1)
		for next < len(c.Ops) {
			if c.Ops[next].Inside {
				// the update is issued from inside the first rule the request runs
				h.pk.Store(open)
				c.Execs = append(c.Execs, h.requestWith(pick(), &pReq{Id: id, Fire: true}, names))
				id++
			} else {
				// the update runs in another goroutine while max requests are parked mid-execution
				n := int(c.Max)
				pk := newParker(n)
				h.pk.Store(pk)
				res := make([]pExec, n)
				var wg sync.WaitGroup
				for k := 0; k < n; k++ {
					wg.Add(1)
					go func(k int, id int64, how string) {
						defer wg.Done()
						res[k] = h.requestWith(how, &pReq{Id: id}, names)
						pk.gone(id)
					}(k, id, pick())
					id++
				}
				select {
				case <-pk.allIn:
				case <-time.After(2 * time.Second):
				}
				umu.Lock()
				apply(false)
				umu.Unlock()
				pk.openGate()
				wg.Wait()
				c.Execs = append(c.Execs, res...)
			}
			// afterwards every instance must run the new version
			h.pk.Store(open)
			for k := 0; k < int(c.Max); k++ {
				c.Execs = append(c.Execs, h.requestWith(pick(), &pReq{Id: id}, names))
				id++
			}
		}
	case "churn":
		// requests from several goroutines while another one walks through every management
		// operation and query: nothing is compared, the run is for the race detector and for crashes
		open := newParker(0)
		open.openGate()
		h.pk.Store(open)
		var wg sync.WaitGroup
		stop := make(chan struct{})
		var nreq int64
		for g := 0; g < int(c.Max)+1; g++ {
			wg.Add(1)
			go func(g int) {
				defer wg.Done()
				for k := 0; ; k++ {
					select {
					case <-stop:
						return
					default:
					}
					ex := h.requestWith(updMethods[(g+k)%5], &pReq{Id: int64(100*g + k%90)}, nil)
					atomic.AddInt64(&nreq, 1)
					if ex.Panic != "" {
						c.Execs = append(c.Execs, ex)
						return
					}
				}
			}(g)
		}
		for k := range c.Ops {
			op := &c.Ops[k]
			h.applyOp(op, k)
			func() {
				defer func() {
					if p := recover(); p != nil {
						op.Panic = "queries: " + fmt.Sprint(p)
					}
				}()
				op.Queries = h.queries()
			}()
			time.Sleep(time.Millisecond)
		}
		close(stop)
		wg.Wait()
		c.Done = int(atomic.LoadInt64(&nreq))
	case "cap":
		failing := map[int64]bool{}
		all := ids(1, c.Clients)
		for _, id := range all {
			if id%3 == 0 {
				failing[id] = true
			}
		}
		var execs []pExec
		execs, c.Peak = h.round(all, failing, 5*time.Second)
		for _, ex := range execs {
			if ex.End != 0 && (ex.Results != nil || ex.Err != "") {
				c.Done++
			}
		}
		c.Execs = execs
		// requests that end in a panic in the caller's goroutine (nil stop tag) must hand their instance back too
		open := newParker(0)
		open.openGate()
		h.pk.Store(open)
		var names []string
		for _, ru := range c.Init {
			names = append(names, ru.Name)
		}
		for k := 0; k < 2*int(c.Max); k++ {
			func() {
				defer func() { _ = recover() }()
				data := map[string]interface{}{"q": &pReq{Id: int64(700 + k)}}
				switch k % 4 {
				case 0:
					h.pool.ExecuteWithStopTagDirect(data, true, nil)
				case 1:
					h.pool.ExecuteSelectedRulesWithControlAndStopTag(data, true, nil, names)
				case 2:
					h.pool.ExecuteMixModelWithStopTagDirect(data, nil)
				default:
					h.pool.ExecuteSelectedRulesWithControlAndStopTagAsGivenSortedName(data, true, nil, names)
				}
			}()
		}
		time.Sleep(5 * time.Millisecond)
		// the instances must all be back: max simultaneous parkers again
		c.Execs2, c.Peak2 = h.round(ids(50, int(c.Max)), nil, 5*time.Second)
	case "iso":
		// requests none of whose rules returns anything: their (empty) result maps must stay empty
		var quiet []pExec
		for k := 0; k < int(c.Max)+1; k++ {
			h.pk.Store(newParker(0))
			h.pk.Load().(*parker).openGate()
			quiet = append(quiet, h.requestWith([]string{"sort", "em", "mix"}[k%3], &pReq{Id: int64(500 + k), Quiet: true}, nil))
			time.Sleep(2 * time.Millisecond)
		}
		execs, _ := h.round(ids(1, c.Clients), nil, 5*time.Second)
		c.Execs = execs
		for _, ex := range quiet {
			if len(ex.raw) != 0 || len(ex.Results) != 0 {
				c.Mutated = true
				c.Note = fmt.Sprintf("the result map handed to request %d (no rule returned a value) holds %v after later requests", ex.Id, valuesOf(ex.raw))
			}
		}
		// a later request that injects nothing must not see anybody's q
		pr := h.request(77, false, false)
		c.Probe = &pr
		// the other entry points: request / response pair (only the response injected, under the
		// name q), then again a request that injects nothing; selected rules none of which exists
		for k := 0; k < int(c.Max)+1; k++ {
			ex := h.requestVia("reqresp", int64(200+k))
			c.Execs2 = append(c.Execs2, ex)
			pr := h.request(int64(300+k), false, false)
			c.Probes = append(c.Probes, pr)
			sel := h.requestVia("selected-none", int64(400+k))
			c.Probes = append(c.Probes, sel)
			// a DAG without layers / with unknown names only runs nothing: nobody's results may come back
			c.Probes = append(c.Probes, h.requestVia([]string{"dag-empty", "dag-unknown"}[k%2], int64(600+k)))
		}
		// more traffic, then the result maps handed out earlier must be unchanged
		h.round(ids(60, int(c.Max)), nil, 5*time.Second)
		for _, ex := range execs {
			if fmt.Sprint(valuesOf(ex.raw)) != fmt.Sprint(ex.Results) {
				c.Mutated = true
			}
		}
	}
	if c.Mode != "upd" {
		sort.SliceStable(c.Execs, func(a, b int) bool { return c.Execs[a].Id < c.Execs[b].Id })
	}
}
