package main

// Scenario "compile" (C10): every generated text is submitted to the five compile entry points
// from a known state; accept / reject / panic and the installed set afterwards are recorded.
// The text's front-end outcome (lexer / parser / listener error lists, rules defined) comes from
// the verif hook builder.VerifFrontEnd, independently of how the entry points wire the listeners.

import (
	"fmt"
	"sort"
	"strings"
	"sync"

	"github.com/bilibili/gengine/builder"
	"github.com/bilibili/gengine/context"
	"github.com/bilibili/gengine/engine"
)

type cRule struct {
	Name string `json:"name"`
	Sal  int64  `json:"sal"`
	Ver  int64  `json:"ver"`
}

type epResult struct {
	Ep    string   `json:"ep"`
	Ok    bool     `json:"ok"`
	Panic bool     `json:"panic"`
	Err   string   `json:"err,omitempty"`
	After []cRule  `json:"after"` // in execution order of the sort model
	Query []cRule  `json:"query"` // what the existence / salience queries say (pool) or the container dump (builder)
	Note  string   `json:"note,omitempty"`
}

type compileCase struct {
	I     int        `json:"i"`
	Scn   string     `json:"scn"`
	Kind  string     `json:"kind"`
	Pre   []cRule    `json:"pre"` // the installed set the text is submitted against
	PreFull   []cRule  `json:"preFull,omitempty"`   // when set: what is built first …
	PreRemove []string `json:"preRemove,omitempty"` // … and then removed, leaving Pre
	Text  string     `json:"text"`
	Front struct {
		Blank    bool     `json:"blank"`
		Lex      []string `json:"lex"`
		Parse    []string `json:"parse"`
		Listener []string `json:"listener"`
		Rules    []cRule  `json:"rules"` // rules the listener built (ver = value their body returns, when known)
	} `json:"front"`
	Results []epResult `json:"results"`
}

var cNames = []string{"r0", "r1", "r2", "r3", "r4", "r5"}

func cRuleText(r cRule, withSal bool) string {
	s := fmt.Sprintf("rule \"%s\" \"d\"", r.Name)
	if withSal {
		s += fmt.Sprintf(" salience %d", r.Sal)
	}
	if (r.Sal+r.Ver)&1 == 0 {
		return s + fmt.Sprintf("\nbegin\n rec(\"%s\")\n return %d\nend\n", r.Name, r.Ver)
	}
	// a body with every kind of statement (no effect beyond rec and the return value): a damaged
	// text then has its error in front of, inside or behind each of them
	return s + fmt.Sprintf("\nbegin\n rec(\"%s\")\n x = 1 + 2 * 3\n if x > 100 {\n y = \"s\"\n } else if x < 0 {\n y = \"t\"\n } else {\n y = @name\n }\n"+
		" for i = 0 ; i < 3 ; i += 1 {\n if i == 0 {\n continue\n }\n if ! ( i < 2 ) {\n break\n }\n x -= 1\n }\n conc {\n z = 1\n w = x\n }\n return %d\nend\n", r.Name, r.Ver)
}

func genRules(r *rng, n int, ver int64) []cRule {
	var out []cRule
	for _, i := range r.perm(len(cNames))[:n] {
		sal := int64(r.intn(5)) - 2
		if r.chance(1, 8) {
			sal = []int64{9223372036854775807, -9223372036854775808, 100}[r.intn(3)]
		}
		out = append(out, cRule{cNames[i], sal, ver})
	}
	return out
}

func genCompileCase(r *rng, i int) *compileCase {
	c := &compileCase{I: i, Scn: "compile"}
	c.Pre = genRules(r, 1+r.intn(3), 0)
	if r.chance(1, 3) {
		// the installed set is what a removal left behind: the container has been rebuilt once
		c.PreFull = genRules(r, 3+r.intn(3), 0)
		nrm := 1 + r.intn(2)
		for _, ru := range c.PreFull[:nrm] {
			c.PreRemove = append(c.PreRemove, ru.Name)
		}
		c.Pre = append([]cRule{}, c.PreFull[nrm:]...)
	}
	rules := genRules(r, 1+r.intn(3), 1)
	var sb strings.Builder
	for _, ru := range rules {
		sb.WriteString(cRuleText(ru, true))
	}
	valid := sb.String()
	toks := strings.Fields(valid)
	switch p := r.intn(100); {
	case p < 30:
		c.Kind, c.Text = "valid", valid
	case p < 42:
		c.Kind = "dup"
		d := rules[r.intn(len(rules))]
		d.Sal += int64(r.intn(2))
		c.Text = valid + cRuleText(d, true)
		if r.chance(1, 2) {
			c.Text = cRuleText(d, true) + valid
		}
	case p < 60:
		// a character the lexer has no token for, between two tokens or inside a comment-free spot
		c.Kind = "lexbad"
		bad := []string{"#", "$", "~", "`", "?", "\\"}[r.intn(6)]
		k := 1 + r.intn(len(toks)-1)
		c.Text = strings.Join(toks[:k], " ") + " " + bad + " " + strings.Join(toks[k:], " ")
	case p < 82:
		c.Kind = "synbad"
		k := r.intn(len(toks))
		switch r.intn(4) {
		case 0: // drop a token
			c.Text = strings.Join(append(append([]string{}, toks[:k]...), toks[k+1:]...), " ")
		case 1: // duplicate a token
			c.Text = strings.Join(append(append(append([]string{}, toks[:k+1]...), toks[k]), toks[k+1:]...), " ")
		case 2: // swap two neighbours
			t := append([]string{}, toks...)
			if k+1 < len(t) {
				t[k], t[k+1] = t[k+1], t[k]
			}
			c.Text = strings.Join(t, " ")
		default: // truncate
			c.Text = strings.Join(toks[:k], " ")
		}
	case p < 90:
		c.Kind = "garbage"
		n := 1 + r.intn(40)
		b := make([]byte, n)
		for j := range b {
			b[j] = byte(r.intn(256))
		}
		c.Text = string(b)
		if r.chance(1, 2) {
			c.Text = valid[:r.intn(len(valid))] + c.Text
		}
	case p < 95:
		c.Kind = "blank"
		c.Text = []string{"", " ", "\n\t ", "// only a comment\n"}[r.intn(4)]
	default:
		c.Kind = "nosal"
		sb.Reset()
		for _, ru := range rules {
			sb.WriteString(cRuleText(ru, false))
		}
		c.Text = sb.String()
	}
	return c
}

type recHost struct {
	mu  sync.Mutex
	log []string
}

func (h *recHost) rec(s string) { h.mu.Lock(); h.log = append(h.log, s); h.mu.Unlock() }
func (h *recHost) take() []string {
	h.mu.Lock()
	defer h.mu.Unlock()
	l := h.log
	h.log = nil
	return l
}

func preText(pre []cRule) string {
	var sb strings.Builder
	for _, r := range pre {
		sb.WriteString(cRuleText(r, true))
	}
	return sb.String()
}

func int64Of(v interface{}) int64 {
	switch x := v.(type) {
	case int64:
		return x
	case int:
		return int64(x)
	}
	return -1
}

func observeBuilder(rb *builder.RuleBuilder, h *recHost) (after, query []cRule, note string) {
	defer func() {
		if p := recover(); p != nil {
			note = fmt.Sprint("panic while observing: ", p)
		}
	}()
	for _, re := range rb.Kc.SortRules {
		query = append(query, cRule{re.RuleName, re.Salience, -1})
	}
	g := engine.NewGengine()
	h.take()
	_ = g.Execute(rb, true)
	m, _ := g.GetRulesResultMap()
	for _, n := range h.take() {
		sal := int64(0)
		if re := rb.Kc.RuleEntities[n]; re != nil {
			sal = re.Salience
		}
		after = append(after, cRule{n, sal, int64Of(m[n])})
	}
	if len(rb.Kc.RuleEntities) != len(rb.Kc.SortRules) {
		note = fmt.Sprintf("map has %d rules, sorted slice %d", len(rb.Kc.RuleEntities), len(rb.Kc.SortRules))
	}
	return
}

func observePool(p *engine.GenginePool, h *recHost, universe []string) (after, query []cRule, note string) {
	defer func() {
		if x := recover(); x != nil {
			note = fmt.Sprint("panic while observing: ", x)
		}
	}()
	ex := p.IsExist(universe)
	for k, n := range universe {
		if ex[k] {
			s, _ := p.GetRuleSalience(n)
			query = append(query, cRule{n, s, -1})
		}
	}
	if p.GetRulesNumber() != len(query) {
		note = fmt.Sprintf("GetRulesNumber=%d but %d names exist", p.GetRulesNumber(), len(query))
	}
	h.take()
	_, m := p.Execute(map[string]interface{}{}, true)
	sal := map[string]int64{}
	for _, q := range query {
		sal[q.Name] = q.Sal
	}
	for _, n := range h.take() {
		after = append(after, cRule{n, sal[n], int64Of(m[n])})
	}
	return
}

func runCompileCase(c *compileCase) {
	var lex, parse, lis, names []string
	var sals []int64
	func() {
		// a front end that panics is a finding of the entry points below (compiling is total), not
		// a reason to lose the case: record it as a listener error and go on
		defer func() {
			if p := recover(); p != nil {
				msg := fmt.Sprint(p)
				if len(msg) > 160 {
					msg = msg[:160]
				}
				lis = append(lis, "front end panicked: "+msg)
			}
		}()
		lex, parse, lis, names, sals = builder.VerifFrontEnd(c.Text)
	}()
	c.Front.Blank = strings.TrimSpace(c.Text) == ""
	c.Front.Lex, c.Front.Parse, c.Front.Listener = lex, parse, lis
	for k, n := range names {
		c.Front.Rules = append(c.Front.Rules, cRule{n, sals[k], 1})
	}
	for k := range c.Front.Lex {
		if len(c.Front.Lex[k]) > 100 {
			c.Front.Lex[k] = c.Front.Lex[k][:100]
		}
	}
	universe := append([]string{}, cNames...)
	for _, n := range names {
		known := false
		for _, u := range universe {
			known = known || u == n
		}
		if !known {
			universe = append(universe, n)
		}
	}
	h := &recHost{}
	apis := map[string]interface{}{"rec": h.rec}
	newRb := func() *builder.RuleBuilder {
		dc := context.NewDataContext()
		dc.Add("rec", h.rec)
		rb := builder.NewRuleBuilder(dc)
		pre := c.Pre
		if c.PreFull != nil {
			pre = c.PreFull
		}
		if e := rb.BuildRuleFromString(preText(pre)); e != nil {
			panic("pre-state does not build: " + e.Error())
		}
		if c.PreFull != nil {
			if e := rb.RemoveRules(c.PreRemove); e != nil {
				panic("pre-state removal failed: " + e.Error())
			}
		}
		return rb
	}
	newPool := func() *engine.GenginePool {
		pre := c.Pre
		if c.PreFull != nil {
			pre = c.PreFull
		}
		p, e := engine.NewGenginePool(1, 2, engine.SortModel, preText(pre), apis)
		if e != nil {
			panic("pre-state pool does not build: " + e.Error())
		}
		if c.PreFull != nil {
			if e := p.RemoveRules(c.PreRemove); e != nil {
				panic("pre-state removal failed: " + e.Error())
			}
		}
		return p
	}
	try := func(ep string, f func() (error, func() ([]cRule, []cRule, string))) {
		res := epResult{Ep: ep}
		var obs func() ([]cRule, []cRule, string)
		func() {
			defer func() {
				if p := recover(); p != nil {
					res.Panic = true
					res.Err = fmt.Sprint(p)
				}
			}()
			var e error
			e, obs = f()
			res.Ok = e == nil
			if e != nil {
				res.Err = e.Error()
			}
		}()
		if len(res.Err) > 160 {
			res.Err = res.Err[:160]
		}
		if obs != nil {
			res.After, res.Query, res.Note = obs()
		}
		sort.SliceStable(res.Query, func(a, b int) bool { return res.Query[a].Name < res.Query[b].Name })
		c.Results = append(c.Results, res)
	}
	try("BuildRuleFromString", func() (error, func() ([]cRule, []cRule, string)) {
		rb := newRb()
		obs := func() ([]cRule, []cRule, string) { return observeBuilder(rb, h) }
		return rb.BuildRuleFromString(c.Text), obs
	})
	try("BuildRuleWithIncremental", func() (error, func() ([]cRule, []cRule, string)) {
		rb := newRb()
		obs := func() ([]cRule, []cRule, string) { return observeBuilder(rb, h) }
		return rb.BuildRuleWithIncremental(c.Text), obs
	})
	try("NewGenginePool", func() (error, func() ([]cRule, []cRule, string)) {
		p, e := engine.NewGenginePool(1, 2, engine.SortModel, c.Text, apis)
		if e != nil || p == nil {
			return e, nil
		}
		return e, func() ([]cRule, []cRule, string) { return observePool(p, h, universe) }
	})
	try("UpdatePooledRules", func() (error, func() ([]cRule, []cRule, string)) {
		p := newPool()
		obs := func() ([]cRule, []cRule, string) { return observePool(p, h, universe) }
		return p.UpdatePooledRules(c.Text), obs
	})
	try("UpdatePooledRulesIncremental", func() (error, func() ([]cRule, []cRule, string)) {
		p := newPool()
		obs := func() ([]cRule, []cRule, string) { return observePool(p, h, universe) }
		return p.UpdatePooledRulesIncremental(c.Text), obs
	})
}
