package main

import (
	"fmt"
	"math"
	"reflect"
	"regexp"
	"sort"
	"strconv"
	"strings"
	"sync"
	"time"

	"github.com/bilibili/gengine/builder"
	"github.com/bilibili/gengine/context"
)

func mathFloat64bits(f float64) uint64     { return math.Float64bits(f) }
func mathFloat64frombits(b uint64) float64 { return math.Float64frombits(b) }
func sortStrings(s []string)               { sort.Strings(s) }

// ---------- AST dump (reflection over the real *base.RuleEntity tree) ----------

var reflectValueType = reflect.TypeOf(reflect.Value{})

func dumpNode(v reflect.Value) interface{} {
	switch v.Kind() {
	case reflect.Ptr, reflect.Interface:
		if v.IsNil() {
			return nil
		}
		return dumpNode(v.Elem())
	case reflect.Struct:
		if v.Type() == reflectValueType {
			if v.CanInterface() {
				return jvalOf(v.Interface().(reflect.Value))
			}
			return JVal{"invalid", ""}
		}
		m := map[string]interface{}{"t": v.Type().Name()}
		for i := 0; i < v.NumField(); i++ {
			f := v.Type().Field(i)
			fv := v.Field(i)
			if f.Anonymous && fv.Kind() == reflect.Struct {
				sub := dumpNode(fv).(map[string]interface{})
				for k, x := range sub {
					if k != "t" {
						m[k] = x
					}
				}
				continue
			}
			m[f.Name] = dumpNode(fv)
		}
		return m
	case reflect.Slice:
		if v.IsNil() {
			return nil
		}
		out := make([]interface{}, 0, v.Len())
		for i := 0; i < v.Len(); i++ {
			out = append(out, dumpNode(v.Index(i)))
		}
		return out
	case reflect.String:
		return v.String()
	case reflect.Int, reflect.Int64:
		return strconv.FormatInt(v.Int(), 10)
	case reflect.Bool:
		return v.Bool()
	}
	return nil
}

// ---------- cases ----------

type evalRule struct {
	Hdr    ruleHdr     `json:"hdr"`
	Body   *RBlock     `json:"body"`
	Ast    interface{} `json:"ast"`
	Result evalResult  `json:"result"`
}

type evalResult struct {
	Outcome string    `json:"outcome"` // ok | err | panic | hang
	Cite    int       `json:"cite"`    // first "line N" in the error message, -1 if none
	Flag    bool      `json:"flag"`
	Val     JVal      `json:"val"`
	Msg     string    `json:"msg,omitempty"`
	Env     []ObjSpec `json:"env"` // host state after this rule
	Trace   []traceEv `json:"trace"`
}

type evalCase struct {
	I     int        `json:"i"`
	Scn   string     `json:"scn"`
	Mode  string     `json:"mode"`
	Env   []ObjSpec  `json:"env"`
	Rules []evalRule `json:"rules"`
	Text  string     `json:"text"`
	Build string     `json:"build,omitempty"`
	Probe *concProbe `json:"probe,omitempty"`
	Incr  bool       `json:"incr,omitempty"` // compiled with BuildRuleWithIncremental
}

// concurrent executions of one rule entity (C15): each must return its own tick
type concProbe struct {
	K    int      `json:"k"`
	Text string   `json:"text"`
	Got  []string `json:"got"`
	Want []string `json:"want"`
}

var citeRe = regexp.MustCompile(`line (\d+), column`)

// modes: expr (one rule: return <expression>), stmt (statement programs), ill (many ill-typed
// constructs), lines (multi-line constructs, several rules)
var allKinds = append(append([]string{}, numKinds...), "string", "bool")

// matrix mode: case i fixes an operand kind pair; ten rules `return v_ka OP w_kb`, one per operator
func genMatrixCase(r *rng, i int) (*evalCase, *hostEnv) {
	c := &evalCase{I: i, Scn: "eval", Mode: "matrix"}
	boundaryHeavy = true
	h := genHostEnv(r)
	boundaryHeavy = false
	ka, kb := allKinds[(i/len(allKinds))%len(allKinds)], allKinds[i%len(allKinds)]
	is64 := func(k string) bool { return k == "int" || k == "int64" || k == "uint" || k == "uint64" }
	if is64(ka) && is64(kb) && r.chance(2, 3) {
		// neighbours beyond 2^53: equal as float64, different as integers
		big := []string{"9007199254740992", "9007199254740993", "9007199254740994", "9223372036854775806", "9223372036854775807"}
		a, b := big[r.intn(len(big))], big[r.intn(len(big))]
		for k := range h.specs {
			if h.specs[k].Name == "v_"+ka {
				h.specs[k].Val = &JVal{ka, a}
			}
			if h.specs[k].Name == "w_"+kb {
				h.specs[k].Val = &JVal{kb, b}
			}
		}
		h.materialise()
	}
	c.Env = h.snapshot()
	w := &renderer{r: r, line: 1}
	ops := [][2]string{{"ar", "+"}, {"ar", "-"}, {"ar", "*"}, {"ar", "/"}, {"cmp", "=="}, {"cmp", "!="}, {"cmp", ">"}, {"cmp", "<"}, {"cmp", ">="}, {"cmp", "<="}}
	for k, op := range ops {
		l := &RE{Op: "var", Sym: "v_" + ka}
		rr := &RE{Op: "var", Sym: "w_" + kb}
		if r.chance(1, 6) && (kb == "int64" || kb == "float64") {
			rr = lit(kb, randVal(r, kb).V)
			if kb == "float64" {
				rr = lit("float64", strconv.FormatUint(mathFloat64bits([]float64{0.5, 2.0, 9007199254740992.0}[r.intn(3)]), 10))
			}
		}
		body := &RBlock{HasRet: true, Ret: mkBin(op[0], op[1], l, rr)}
		hdr := ruleHdr{Name: fmt.Sprintf("m%d", k)}
		w.rule(hdr, body)
		c.Rules = append(c.Rules, evalRule{Hdr: hdr, Body: body})
	}
	c.Text = w.sb.String()
	return c, h
}

func genEvalCase(r *rng, i int, mode string) (*evalCase, *hostEnv) {
	if mode == "matrix" {
		return genMatrixCase(r, i)
	}
	c := &evalCase{I: i, Scn: "eval", Mode: mode}
	h := genHostEnv(r)
	c.Env = h.snapshot()
	nrules := 1
	if mode == "lines" || r.chance(1, 4) {
		nrules = 1 + r.intn(3)
	}
	if mode == "locals" {
		nrules = 2 + r.intn(3)
		c.Probe = &concProbe{K: 2 + r.intn(5)}
	}
	w := &renderer{r: r, line: 1, multi: mode == "lines" || r.chance(1, 5)}
	if mode == "lines" {
		c.Incr = r.chance(1, 2)
		for k, n := 0, r.intn(4); k < n; k++ {
			w.nl() // the text starts with blank lines
		}
	}
	names := []string{"r1", "42", "7x", "rule_b", "100"}
	perm := r.perm(len(names))
	if mode == "conc" && r.chance(1, 8) {
		// the same conc block executed twice on one rule entity: first with a failing child, then,
		// after another rule has repaired the data, with none — nothing of the first execution
		// (an error message, a counter) may survive into the second
		v := func(n string) *RE { return &RE{Op: "var", Sym: n} }
		asg := func(t string, e *RE) *RS { return &RS{Op: "assign", Sym: "=", Tgt: v(t), E: e} }
		g := &egen{r: r, locals: map[string]string{}}
		blk := &RS{Op: "conc", Items: []*RS{asg("c0", mkBin("ar", "/", lit("int64", "7"), v("S.I32"))), asg("S.I64", lit("int64", "5"))}}
		for k, n := 0, 1+r.intn(2); k < n; k++ {
			g.noteN++
			blk.Items = append(blk.Items, &RS{Op: "call", E: &RE{Op: "call", Kind: "func", Sym: "obsC", Args: []*RE{lit("int64", strconv.Itoa(g.noteN))}}})
		}
		if r.chance(1, 2) {
			g.noteN++
			blk.Items = append(blk.Items, &RS{Op: "call", E: &RE{Op: "call", Kind: "method", Sym: "S.Note", Args: []*RE{lit("int64", strconv.Itoa(g.noteN))}}})
		}
		bodies := []*RBlock{
			{Stmts: []*RS{asg("S.I32", lit("int64", "0"))}},
			{Stmts: []*RS{blk}, HasRet: true, Ret: v("c0")},
			{Stmts: []*RS{asg("S.I32", lit("int64", "1"))}},
		}
		hdrs := []ruleHdr{{Name: names[perm[0]]}, {Name: names[perm[1]]}, {Name: names[perm[2]]}}
		for k := range bodies {
			w.rule(hdrs[k], bodies[k])
		}
		for _, k := range []int{0, 1, 2, 1} {
			c.Rules = append(c.Rules, evalRule{Hdr: hdrs[k], Body: bodies[k]})
		}
		c.Text = w.sb.String()
		return c, h
	}
	for k := 0; k < nrules; k++ {
		g := &egen{r: r, locals: map[string]string{}}
		switch mode {
		case "conc":
			g.illP = 4
			g.concP = 35
			if r.chance(1, 3) {
				g.illP = 80
			}
		case "ill":
			g.illP = 120
		case "expr":
			g.illP = 10
		default:
			g.illP = 4
		}
		hdr := ruleHdr{Name: names[perm[k]], HasDesc: r.chance(2, 3), HasSal: r.chance(2, 3)}
		if hdr.HasDesc {
			hdr.Desc = []string{"first", "d two", ""}[r.intn(3)]
		}
		if hdr.HasSal {
			hdr.Sal = int64(r.intn(200)) - 50
		}
		var body *RBlock
		if mode == "locals" {
			body = genLocalsRule(r, g, k)
			w.rule(hdr, body)
			c.Rules = append(c.Rules, evalRule{Hdr: hdr, Body: body})
			if r.chance(1, 2) {
				// the same rule once more: a later execution starts from undefined locals again
				c.Rules = append(c.Rules, evalRule{Hdr: hdr, Body: body})
			}
			continue
		}
		if mode == "parse" {
			g.illP = 2
			te := g.genToks(2 + r.intn(4))
			ctx := r.intn(4)
			if te.Damaged && ctx == 0 {
				ctx = 2 // after an assignment a left-over call would be the next statement
			}
			switch ctx {
			case 0:
				// assignment: the right-hand side is `mathExpression | expression`
				body = &RBlock{Stmts: []*RS{{Op: "assign", Sym: "=", Tgt: &RE{Op: "var", Sym: "x3"}, E: te}},
					HasRet: true, Ret: &RE{Op: "var", Sym: "x3"}}
			case 1:
				// condition
				body = &RBlock{Stmts: []*RS{{Op: "if", E: te, Body: &RBlock{HasRet: true, Ret: lit("int64", "1")}}},
					HasRet: true, Ret: lit("int64", "2")}
			default:
				body = &RBlock{HasRet: true, Ret: te}
			}
		} else if mode == "expr" {
			e, _ := g.anyExpr(2 + r.intn(4))
			if r.chance(1, 5) {
				e = atExpr(r)
			}
			body = &RBlock{HasRet: true, Ret: e}
		} else {
			g.recvLocal = mode == "conc" && r.chance(1, 3)
			body = g.block(2+r.intn(2), false, true)
			if g.recvLocal {
				body.Stmts = append([]*RS{{Op: "assign", Sym: "=", Tgt: &RE{Op: "var", Sym: "t"}, E: &RE{Op: "var", Sym: "S"}}}, body.Stmts...)
			}
			if r.chance(1, 6) {
				body.Stmts = append(body.Stmts, &RS{Op: "assign", Sym: "=", Tgt: &RE{Op: "var", Sym: "x3"}, E: atExpr(r)})
			}
		}
		w.rule(hdr, body)
		c.Rules = append(c.Rules, evalRule{Hdr: hdr, Body: body})
	}
	c.Text = w.sb.String()
	return c, h
}

// rules of the locals mode: locals assigned at some nesting depth (or not at all) under a
// condition that depends on injected state the rule itself flips, then read at top level
func genLocalsRule(r *rng, g *egen, k int) *RBlock {
	v := func(n string) *RE { return &RE{Op: "var", Sym: n} }
	asg := func(t string, e *RE) *RS { return &RS{Op: "assign", Sym: "=", Tgt: v(t), E: e} }
	name := localNames[r.intn(len(localNames))]
	b := &RBlock{}
	switch r.intn(10) {
	case 7:
		// assigns a local, then faults outside any assignment or call (non-boolean condition: a panic
		// recovered at the rule's entry point); the next execution must still start from undefined locals
		b.Stmts = append(b.Stmts, asg(name, lit("int64", strconv.Itoa(30+k))),
			&RS{Op: "if", E: v(name), Body: &RBlock{Stmts: []*RS{asg(name, lit("int64", "0"))}}})
		b.HasRet, b.Ret = true, v(name)
	case 8:
		// the only local is a forRange key; no assignment anywhere in the rule
		b.Stmts = append(b.Stmts, &RS{Op: "forRange", Sym: "ix", Coll: "A", Body: &RBlock{Stmts: []*RS{
			{Op: "call", E: &RE{Op: "call", Kind: "func", Sym: "obs", Args: []*RE{v("ix")}}}}}})
	case 9:
		// no assignment at all: reads a name only another rule's forRange / assignment defined
		b.Stmts = append(b.Stmts, &RS{Op: "call", E: &RE{Op: "call", Kind: "func", Sym: "obs", Args: []*RE{v([]string{"ix", name}[r.intn(2)])}}})
	case 5:
		// a local holding a pointer to an injected struct reads and writes through it
		fld := []string{"I64", "I32", "U16", "F64"}[r.intn(4)]
		b.Stmts = append(b.Stmts, asg("t", v("S")), asg("t."+fld, lit("int64", strconv.Itoa(3+k))),
			asg(name, mkBin("ar", "+", v("t."+fld), v("S."+fld))))
		b.HasRet, b.Ret = true, v(name)
	case 6:
		// … and once the same name is injected, the injected struct wins for reads and for writes
		b.Stmts = append(b.Stmts, asg("ls", v("S")), asg("ls.I64", lit("int64", "1")),
			&RS{Op: "call", E: &RE{Op: "call", Kind: "func", Sym: "injS"}},
			asg("ls.I64", lit("int64", strconv.Itoa(40+k))), asg(name, v("ls.I64")))
		b.HasRet, b.Ret = true, mkBin("ar", "+", v(name), v("S.I64"))
	case 0:
		// assign only while p_bool holds, then clear p_bool: the next execution must not see the local
		inner := &RBlock{Stmts: []*RS{asg(name, lit("int64", strconv.Itoa(10+k)))}}
		if r.chance(1, 2) {
			inner = &RBlock{Stmts: []*RS{{Op: "if", E: lit("bool", "true"), Body: inner}}}
		}
		b.Stmts = append(b.Stmts, &RS{Op: "if", E: v("p_bool"), Body: inner}, asg("p_bool", lit("bool", "false")))
		b.HasRet, b.Ret = true, v(name)
	case 1:
		// plain definition at top level, visible to this rule only
		b.Stmts = append(b.Stmts, asg(name, lit("int64", strconv.Itoa(20+k))), &RS{Op: "call", E: &RE{Op: "call", Kind: "func", Sym: "obs", Args: []*RE{v(name)}}})
		b.HasRet, b.Ret = true, v(name)
	case 2:
		// reads a local it never assigned
		b.HasRet, b.Ret = true, mkBin("ar", "+", v(name), lit("int64", "1"))
	case 3:
		// a local whose name gets injected while the rule runs: the injected object wins from then on
		b.Stmts = append(b.Stmts, asg("late", lit("int64", "1")), &RS{Op: "call", E: &RE{Op: "call", Kind: "func", Sym: "inj"}})
		if r.chance(1, 2) {
			b.Stmts = append(b.Stmts, asg(name, v("late")))
			b.HasRet, b.Ret = true, v(name)
		} else {
			b.HasRet, b.Ret = true, v("late")
		}
	default:
		// defined inside a loop / else branch, read after it
		inner := &RBlock{Stmts: []*RS{asg(name, mkBin("ar", "+", v("i"), lit("int64", strconv.Itoa(k))))}}
		init := asg("i", lit("int64", "0"))
		step := &RS{Op: "assign", Sym: "+=", Tgt: v("i"), E: lit("int64", "1")}
		b.Stmts = append(b.Stmts, &RS{Op: "for", Init: init, E: mkBin("cmp", "<", v("i"), lit("int64", "2")), Step: step, Body: inner})
		b.HasRet, b.Ret = true, mkBin("ar", "*", v(name), v("i"))
	}
	return b
}

// K concurrent executions of one rule entity, synchronised by a barrier after the assignment
func runConcProbe(c *evalCase, h *hostEnv) {
	p := c.Probe
	nest := c.I%2 == 0
	asg := " cx = tick()\n"
	if nest {
		asg = " if true {\n  cx = tick()\n }\n"
	}
	p.Text = "rule \"cc\" begin\n" + asg + " sync()\n return cx\nend\n"
	wide := c.I%3 == 0
	if wide {
		// every execution has evaluated the first argument (its own local) and waits inside the second
		// one until all have: an argument list kept anywhere but in the execution itself gets mixed up
		p.Text = "rule \"cc\" begin\n" + asg + " return pair( cx, syncv( cx ) )\nend\n"
	}
	dc := context.NewDataContext()
	h.mu.Lock()
	h.tickN, h.syncN, h.syncArr, h.syncCh = 0, p.K, 0, make(chan struct{})
	h.mu.Unlock()
	dc.Add("tick", h.funcValue("tick"))
	dc.Add("sync", h.funcValue("sync"))
	dc.Add("syncv", h.funcValue("syncv"))
	dc.Add("pair", h.funcValue("pair"))
	rb := builder.NewRuleBuilder(dc)
	if err := rb.BuildRuleFromString(p.Text); err != nil {
		p.Got = []string{"build: " + err.Error()}
		return
	}
	re := rb.Kc.RuleEntities["cc"]
	res := make([]string, p.K)
	var wg sync.WaitGroup
	for i := 0; i < p.K; i++ {
		wg.Add(1)
		go func(i int) {
			defer wg.Done()
			defer func() {
				if x := recover(); x != nil {
					res[i] = fmt.Sprint("panic: ", x)
				}
			}()
			v, e, _ := re.Execute(dc)
			if e != nil {
				res[i] = "err: " + e.Error()
			} else {
				res[i] = fmt.Sprint(v)
			}
		}(i)
	}
	wg.Wait()
	sortStrings(res)
	p.Got = res
	for i := 1; i <= p.K; i++ {
		if wide {
			p.Want = append(p.Want, strconv.Itoa(i*1000+i))
		} else {
			p.Want = append(p.Want, strconv.Itoa(i))
		}
	}
	sortStrings(p.Want)
}

func atExpr(r *rng) *RE {
	switch r.intn(4) {
	case 0:
		return &RE{Op: "at", Sym: "@name"}
	case 1:
		return &RE{Op: "at", Sym: "@id"}
	case 2:
		return &RE{Op: "at", Sym: "@desc"}
	default:
		return &RE{Op: "at", Sym: "@sal"}
	}
}

func runEvalCase(c *evalCase, h *hostEnv) {
	if c.Probe != nil {
		runConcProbe(c, h)
	}
	dc := context.NewDataContext()
	h.dc = dc
	curHost = h
	for name, o := range h.objs {
		dc.Add(name, o)
	}
	rb := builder.NewRuleBuilder(dc)
	var buildErr error
	func() {
		defer func() {
			if p := recover(); p != nil {
				buildErr = fmt.Errorf("panic: %v", p)
			}
		}()
		if c.Incr {
			buildErr = rb.BuildRuleWithIncremental(c.Text)
		} else {
			buildErr = rb.BuildRuleFromString(c.Text)
		}
	}()
	if buildErr != nil {
		c.Build = buildErr.Error()
		if len(c.Build) > 400 {
			c.Build = c.Build[:400]
		}
		return
	}
	for k := range c.Rules {
		re := rb.Kc.RuleEntities[c.Rules[k].Hdr.Name]
		if re == nil {
			c.Build = "rule missing after build: " + c.Rules[k].Hdr.Name
			return
		}
		c.Rules[k].Ast = dumpNode(reflect.ValueOf(re))
		h.mu.Lock()
		h.trace = nil
		h.mu.Unlock()
		type out struct {
			v    interface{}
			e    error
			flag bool
			p    interface{}
		}
		done := make(chan out, 1)
		go func() {
			var o out
			defer func() {
				if p := recover(); p != nil {
					o.p = p
				}
				done <- o
			}()
			o.v, o.e, o.flag = re.Execute(dc)
		}()
		res := evalResult{Cite: -1}
		select {
		case o := <-done:
			switch {
			case o.p != nil:
				res.Outcome = "panic"
				res.Msg = fmt.Sprint(o.p)
			case o.e != nil:
				res.Outcome = "err"
				res.Msg = o.e.Error()
				if m := citeRe.FindStringSubmatch(res.Msg); m != nil {
					res.Cite, _ = strconv.Atoi(m[1])
				}
			default:
				res.Outcome = "ok"
			}
			res.Flag = o.flag
			res.Val = jvalOfIface(o.v)
		case <-time.After(20 * time.Second):
			res.Outcome = "hang"
		}
		if len(res.Msg) > 300 {
			res.Msg = res.Msg[:300]
		}
		res.Env = h.snapshot()
		h.mu.Lock()
		res.Trace = append([]traceEv{}, h.trace...)
		h.mu.Unlock()
		if res.Trace == nil {
			res.Trace = []traceEv{}
		}
		c.Rules[k].Result = res
		if res.Outcome == "hang" {
			return
		}
	}
}

var _ = strings.Contains
