package main

import (
	"fmt"
	"math"
	"reflect"
	"regexp"
	"sort"
	"strconv"
	"strings"
	"time"

	"github.com/bilibili/gengine/builder"
	"github.com/bilibili/gengine/context"
)

func mathFloat64bits(f float64) uint64     { return math.Float64bits(f) }
func mathFloat64frombits(b uint64) float64 { return math.Float64frombits(b) }
func sortStrings(s []string)               { sort.Strings(s) }

// ---------- AST dump (reflection over the real *base.RuleEntity tree) ----------

var reflectValueType = reflect.TypeOf(reflect.Value{})

func dumpNode(v reflect.Value) interface{} {
	switch v.Kind() {
	case reflect.Ptr, reflect.Interface:
		if v.IsNil() {
			return nil
		}
		return dumpNode(v.Elem())
	case reflect.Struct:
		if v.Type() == reflectValueType {
			if v.CanInterface() {
				return jvalOf(v.Interface().(reflect.Value))
			}
			return JVal{"invalid", ""}
		}
		m := map[string]interface{}{"t": v.Type().Name()}
		for i := 0; i < v.NumField(); i++ {
			f := v.Type().Field(i)
			fv := v.Field(i)
			if f.Anonymous && fv.Kind() == reflect.Struct {
				sub := dumpNode(fv).(map[string]interface{})
				for k, x := range sub {
					if k != "t" {
						m[k] = x
					}
				}
				continue
			}
			m[f.Name] = dumpNode(fv)
		}
		return m
	case reflect.Slice:
		if v.IsNil() {
			return nil
		}
		out := make([]interface{}, 0, v.Len())
		for i := 0; i < v.Len(); i++ {
			out = append(out, dumpNode(v.Index(i)))
		}
		return out
	case reflect.String:
		return v.String()
	case reflect.Int, reflect.Int64:
		return strconv.FormatInt(v.Int(), 10)
	case reflect.Bool:
		return v.Bool()
	}
	return nil
}

// ---------- cases ----------

type evalRule struct {
	Hdr    ruleHdr     `json:"hdr"`
	Body   *RBlock     `json:"body"`
	Ast    interface{} `json:"ast"`
	Result evalResult  `json:"result"`
}

type evalResult struct {
	Outcome string    `json:"outcome"` // ok | err | panic | hang
	Cite    int       `json:"cite"`    // first "line N" in the error message, -1 if none
	Flag    bool      `json:"flag"`
	Val     JVal      `json:"val"`
	Msg     string    `json:"msg,omitempty"`
	Env     []ObjSpec `json:"env"` // host state after this rule
	Trace   []traceEv `json:"trace"`
}

type evalCase struct {
	I     int        `json:"i"`
	Scn   string     `json:"scn"`
	Mode  string     `json:"mode"`
	Env   []ObjSpec  `json:"env"`
	Rules []evalRule `json:"rules"`
	Text  string     `json:"text"`
	Build string     `json:"build,omitempty"`
}

var citeRe = regexp.MustCompile(`line (\d+), column`)

// modes: expr (one rule: return <expression>), stmt (statement programs), ill (many ill-typed
// constructs), lines (multi-line constructs, several rules)
var allKinds = append(append([]string{}, numKinds...), "string", "bool")

// matrix mode: case i fixes an operand kind pair; ten rules `return v_ka OP w_kb`, one per operator
func genMatrixCase(r *rng, i int) (*evalCase, *hostEnv) {
	c := &evalCase{I: i, Scn: "eval", Mode: "matrix"}
	boundaryHeavy = true
	h := genHostEnv(r)
	boundaryHeavy = false
	ka, kb := allKinds[(i/len(allKinds))%len(allKinds)], allKinds[i%len(allKinds)]
	is64 := func(k string) bool { return k == "int" || k == "int64" || k == "uint" || k == "uint64" }
	if is64(ka) && is64(kb) && r.chance(2, 3) {
		// neighbours beyond 2^53: equal as float64, different as integers
		big := []string{"9007199254740992", "9007199254740993", "9007199254740994", "9223372036854775806", "9223372036854775807"}
		a, b := big[r.intn(len(big))], big[r.intn(len(big))]
		for k := range h.specs {
			if h.specs[k].Name == "v_"+ka {
				h.specs[k].Val = &JVal{ka, a}
			}
			if h.specs[k].Name == "w_"+kb {
				h.specs[k].Val = &JVal{kb, b}
			}
		}
		h.materialise()
	}
	c.Env = h.snapshot()
	w := &renderer{r: r, line: 1}
	ops := [][2]string{{"ar", "+"}, {"ar", "-"}, {"ar", "*"}, {"ar", "/"}, {"cmp", "=="}, {"cmp", "!="}, {"cmp", ">"}, {"cmp", "<"}, {"cmp", ">="}, {"cmp", "<="}}
	for k, op := range ops {
		l := &RE{Op: "var", Sym: "v_" + ka}
		rr := &RE{Op: "var", Sym: "w_" + kb}
		if r.chance(1, 6) && (kb == "int64" || kb == "float64") {
			rr = lit(kb, randVal(r, kb).V)
			if kb == "float64" {
				rr = lit("float64", strconv.FormatUint(mathFloat64bits([]float64{0.5, 2.0, 9007199254740992.0}[r.intn(3)]), 10))
			}
		}
		body := &RBlock{HasRet: true, Ret: mkBin(op[0], op[1], l, rr)}
		hdr := ruleHdr{Name: fmt.Sprintf("m%d", k)}
		w.rule(hdr, body)
		c.Rules = append(c.Rules, evalRule{Hdr: hdr, Body: body})
	}
	c.Text = w.sb.String()
	return c, h
}

func genEvalCase(r *rng, i int, mode string) (*evalCase, *hostEnv) {
	if mode == "matrix" {
		return genMatrixCase(r, i)
	}
	c := &evalCase{I: i, Scn: "eval", Mode: mode}
	h := genHostEnv(r)
	c.Env = h.snapshot()
	nrules := 1
	if mode == "lines" || r.chance(1, 4) {
		nrules = 1 + r.intn(3)
	}
	w := &renderer{r: r, line: 1, multi: mode == "lines" || r.chance(1, 5)}
	names := []string{"r1", "42", "7x", "rule_b", "100"}
	perm := r.perm(len(names))
	for k := 0; k < nrules; k++ {
		g := &egen{r: r, locals: map[string]string{}}
		switch mode {
		case "ill":
			g.illP = 120
		case "expr":
			g.illP = 10
		default:
			g.illP = 4
		}
		hdr := ruleHdr{Name: names[perm[k]], HasDesc: r.chance(2, 3), HasSal: r.chance(2, 3)}
		if hdr.HasDesc {
			hdr.Desc = []string{"first", "d two", ""}[r.intn(3)]
		}
		if hdr.HasSal {
			hdr.Sal = int64(r.intn(200)) - 50
		}
		var body *RBlock
		if mode == "expr" {
			e, _ := g.anyExpr(2 + r.intn(4))
			if r.chance(1, 5) {
				e = atExpr(r)
			}
			body = &RBlock{HasRet: true, Ret: e}
		} else {
			body = g.block(2+r.intn(2), false, true)
			if r.chance(1, 6) {
				body.Stmts = append(body.Stmts, &RS{Op: "assign", Sym: "=", Tgt: &RE{Op: "var", Sym: "x3"}, E: atExpr(r)})
			}
		}
		w.rule(hdr, body)
		c.Rules = append(c.Rules, evalRule{Hdr: hdr, Body: body})
	}
	c.Text = w.sb.String()
	return c, h
}

func atExpr(r *rng) *RE {
	switch r.intn(4) {
	case 0:
		return &RE{Op: "at", Sym: "@name"}
	case 1:
		return &RE{Op: "at", Sym: "@id"}
	case 2:
		return &RE{Op: "at", Sym: "@desc"}
	default:
		return &RE{Op: "at", Sym: "@sal"}
	}
}

func runEvalCase(c *evalCase, h *hostEnv) {
	dc := context.NewDataContext()
	for name, o := range h.objs {
		dc.Add(name, o)
	}
	rb := builder.NewRuleBuilder(dc)
	var buildErr error
	func() {
		defer func() {
			if p := recover(); p != nil {
				buildErr = fmt.Errorf("panic: %v", p)
			}
		}()
		buildErr = rb.BuildRuleFromString(c.Text)
	}()
	if buildErr != nil {
		c.Build = buildErr.Error()
		if len(c.Build) > 400 {
			c.Build = c.Build[:400]
		}
		return
	}
	for k := range c.Rules {
		re := rb.Kc.RuleEntities[c.Rules[k].Hdr.Name]
		if re == nil {
			c.Build = "rule missing after build: " + c.Rules[k].Hdr.Name
			return
		}
		c.Rules[k].Ast = dumpNode(reflect.ValueOf(re))
		h.mu.Lock()
		h.trace = nil
		h.mu.Unlock()
		type out struct {
			v    interface{}
			e    error
			flag bool
			p    interface{}
		}
		done := make(chan out, 1)
		go func() {
			var o out
			defer func() {
				if p := recover(); p != nil {
					o.p = p
				}
				done <- o
			}()
			o.v, o.e, o.flag = re.Execute(dc)
		}()
		res := evalResult{Cite: -1}
		select {
		case o := <-done:
			switch {
			case o.p != nil:
				res.Outcome = "panic"
				res.Msg = fmt.Sprint(o.p)
			case o.e != nil:
				res.Outcome = "err"
				res.Msg = o.e.Error()
				if m := citeRe.FindStringSubmatch(res.Msg); m != nil {
					res.Cite, _ = strconv.Atoi(m[1])
				}
			default:
				res.Outcome = "ok"
			}
			res.Flag = o.flag
			res.Val = jvalOfIface(o.v)
		case <-time.After(20 * time.Second):
			res.Outcome = "hang"
		}
		if len(res.Msg) > 300 {
			res.Msg = res.Msg[:300]
		}
		res.Env = h.snapshot()
		h.mu.Lock()
		res.Trace = append([]traceEv{}, h.trace...)
		h.mu.Unlock()
		if res.Trace == nil {
			res.Trace = []traceEv{}
		}
		c.Rules[k].Result = res
		if res.Outcome == "hang" {
			return
		}
	}
}

var _ = strings.Contains
