package main

import (
	"fmt"
	"math"
	"reflect"
	"sort"
	"strconv"
	"sync"
	"sync/atomic"
	"time"

	"github.com/bilibili/gengine/context"
)

// Values and host objects of the evaluator scenarios (C01 C02 C03 C09 C15 C20).

// JVal is the wire form of a value: integers as decimal strings, floats as bit patterns.
type JVal struct {
	K string `json:"k"`
	V string `json:"v"`
}

func jvalOf(v reflect.Value) JVal {
	if !v.IsValid() {
		return JVal{"invalid", ""}
	}
	switch v.Kind() {
	case reflect.Int, reflect.Int8, reflect.Int16, reflect.Int32, reflect.Int64:
		return JVal{v.Kind().String(), strconv.FormatInt(v.Int(), 10)}
	case reflect.Uint, reflect.Uint8, reflect.Uint16, reflect.Uint32, reflect.Uint64:
		return JVal{v.Kind().String(), strconv.FormatUint(v.Uint(), 10)}
	case reflect.Float32, reflect.Float64:
		return JVal{v.Kind().String(), strconv.FormatUint(math.Float64bits(v.Float()), 10)}
	case reflect.String:
		return JVal{"string", v.String()}
	case reflect.Bool:
		if v.Bool() {
			return JVal{"bool", "true"}
		}
		return JVal{"bool", "false"}
	case reflect.Interface:
		if v.IsNil() {
			return JVal{"interface", ""}
		}
		return JVal{"interface", ""}
	}
	return JVal{v.Kind().String(), ""}
}

func jvalOfIface(x interface{}) JVal {
	if x == nil {
		return JVal{"invalid", ""}
	}
	return jvalOf(reflect.ValueOf(x))
}

var numKinds = []string{"int", "int8", "int16", "int32", "int64", "uint", "uint8", "uint16", "uint32", "uint64", "float32", "float64"}

func kindBits(k string) int {
	switch k {
	case "int8", "uint8":
		return 8
	case "int16", "uint16":
		return 16
	case "int32", "uint32":
		return 32
	}
	return 64
}

// goValue builds a Go value of kind k from a JVal of the same class.
func goValue(j JVal) interface{} {
	switch j.K {
	case "int":
		x, _ := strconv.ParseInt(j.V, 10, 64)
		return int(x)
	case "int8":
		x, _ := strconv.ParseInt(j.V, 10, 64)
		return int8(x)
	case "int16":
		x, _ := strconv.ParseInt(j.V, 10, 64)
		return int16(x)
	case "int32":
		x, _ := strconv.ParseInt(j.V, 10, 64)
		return int32(x)
	case "int64":
		x, _ := strconv.ParseInt(j.V, 10, 64)
		return x
	case "uint":
		x, _ := strconv.ParseUint(j.V, 10, 64)
		return uint(x)
	case "uint8":
		x, _ := strconv.ParseUint(j.V, 10, 64)
		return uint8(x)
	case "uint16":
		x, _ := strconv.ParseUint(j.V, 10, 64)
		return uint16(x)
	case "uint32":
		x, _ := strconv.ParseUint(j.V, 10, 64)
		return uint32(x)
	case "uint64":
		x, _ := strconv.ParseUint(j.V, 10, 64)
		return x
	case "float32":
		b, _ := strconv.ParseUint(j.V, 10, 64)
		return float32(math.Float64frombits(b))
	case "float64":
		b, _ := strconv.ParseUint(j.V, 10, 64)
		return math.Float64frombits(b)
	case "string":
		return j.V
	case "bool":
		return j.V == "true"
	}
	return nil
}

var boundaryHeavy = false

// random value of a kind, biased to boundaries
func randVal(r *rng, k string) JVal {
	switch k {
	case "string":
		ss := []string{"", "a", "ab", "b", "Z", "hello", "10", "9"}
		return JVal{"string", ss[r.intn(len(ss))]}
	case "bool":
		if r.chance(1, 2) {
			return JVal{"bool", "true"}
		}
		return JVal{"bool", "false"}
	case "float32", "float64":
		fs := []float64{0, 1, -1, 0.5, 2.5, -3.25, 100, 1e6, 9007199254740992, 3, 7}
		f := fs[r.intn(len(fs))]
		if k == "float32" {
			f = float64(float32(f))
		}
		return JVal{k, strconv.FormatUint(math.Float64bits(f), 10)}
	}
	bits := kindBits(k)
	signed := k[0] == 'i'
	var cands []string
	if signed {
		max := int64(1)<<uint(bits-1) - 1
		min := -max - 1
		for _, x := range []int64{0, 1, -1, 2, 3, 7, 10, -5, max, min, max - 1, min + 1} {
			cands = append(cands, strconv.FormatInt(x, 10))
		}
		if bits == 64 {
			cands = append(cands, "9007199254740993", "9007199254740992", "-9007199254740993")
		}
	} else {
		var max uint64 = math.MaxUint64
		if bits < 64 {
			max = uint64(1)<<uint(bits) - 1
		}
		for _, x := range []uint64{0, 1, 2, 3, 7, 10, max, max - 1} {
			cands = append(cands, strconv.FormatUint(x, 10))
		}
		if bits == 64 {
			cands = append(cands, "9007199254740993", "9223372036854775808", "9223372036854775807")
		}
	}
	if !boundaryHeavy && r.chance(2, 3) {
		// small values most of the time
		return JVal{k, cands[r.intn(5)]}
	}
	return JVal{k, cands[r.intn(len(cands))]}
}

// HostS is the injected struct (by pointer as "S", by value as "SV").
type HostS struct {
	I   int
	I8  int8
	I16 int16
	I32 int32
	I64 int64
	U   uint
	U8  uint8
	U16 uint16
	U32 uint32
	U64 uint64
	F32 float32
	F64 float64
	Str string
	B   bool
	Sub *HostSub // receiver of three-level calls; not part of the compared state
}

type HostSub struct{}

// Mark records an observable event (three-level call S.Sub.Mark(x), used inside conc blocks)
func (s *HostSub) Mark(x int64) {
	if curHost != nil {
		curHost.delay(100 * time.Microsecond)
		curHost.rec("mark", x)
	}
}

func (s *HostS) Echo32(x int32) int32 { return x }
func (s *HostS) AddI64(x int64) int64 { return s.I64 + x }

// Note records an observable event (used inside conc blocks); curHost is the case being run.
func (s *HostS) Note(x int64) {
	if curHost != nil {
		curHost.delay(150 * time.Microsecond)
		curHost.rec("note", x)
	}
}

// delay sleeps for the first few dozen calls of a case only, so that a loop running to its cut-off
// with observers inside cannot add up to the watchdog's limit
func (h *hostEnv) delay(d time.Duration) {
	if atomic.AddInt64(&h.delays, 1) <= 64 {
		time.Sleep(d)
	}
}

// Blow panics: a method of an injected object that faults (nil map write)
func (s *HostS) Blow(x int64) {
	var m map[string]int64
	m["x"] = x
}

var curHost *hostEnv

var hostFields = []string{"I", "I8", "I16", "I32", "I64", "U", "U8", "U16", "U32", "U64", "F32", "F64", "Str", "B"}

func fieldKind(f string) string {
	switch f {
	case "Str":
		return "string"
	case "B":
		return "bool"
	case "I":
		return "int"
	case "U":
		return "uint"
	case "F32":
		return "float32"
	case "F64":
		return "float64"
	}
	if f[0] == 'I' {
		return "int" + f[1:]
	}
	return "uint" + f[1:]
}

// ObjSpec describes one injected object on the wire.
type ObjSpec struct {
	Name    string      `json:"name"`
	Type    string      `json:"type"` // val | pscalar | struct | map | slice | func
	Ptr     bool        `json:"ptr"`
	IsArray bool        `json:"isArray"`
	Val     *JVal       `json:"val,omitempty"`
	Fields  [][2]interface{} `json:"fields,omitempty"` // [name, JVal]
	KeyK    string      `json:"keyK,omitempty"`
	ElemK   string      `json:"elemK,omitempty"`
	Entries [][2]JVal   `json:"entries,omitempty"`
	Elems   []JVal      `json:"elems,omitempty"`
	Func    string      `json:"func,omitempty"`
}

type traceEv struct {
	Fn   string `json:"fn"`
	Args []JVal `json:"args"`
}

type hostEnv struct {
	specs []ObjSpec
	objs  map[string]interface{} // what is passed to dc.Add
	mu    sync.Mutex
	trace []traceEv
	dc    *context.DataContext
	delays int64
	// concurrent-execution probe (C15): tick() hands out 1,2,3,…; sync() waits for syncN arrivals
	tickN   int64
	syncN   int
	syncArr int
	syncCh  chan struct{}
}

// inj(): the host injects the name `late` while a rule is running
// injS(): the host injects the name `ls` (a pointer to a fresh struct) while a rule is running
func (h *hostEnv) injectStruct() {
	h.mu.Lock()
	defer h.mu.Unlock()
	if _, ok := h.objs["ls"]; ok {
		return
	}
	var fs [][2]interface{}
	for _, f := range hostFields {
		k := fieldKind(f)
		z := JVal{k, "0"}
		switch k {
		case "string":
			z = JVal{k, ""}
		case "bool":
			z = JVal{k, "false"}
		}
		fs = append(fs, [2]interface{}{f, z})
	}
	obj := &HostS{Sub: &HostSub{}}
	h.specs = append(h.specs, ObjSpec{Name: "ls", Type: "struct", Ptr: true, Fields: fs})
	h.objs["ls"] = obj
	if h.dc != nil {
		h.dc.Add("ls", obj)
	}
}

func (h *hostEnv) inject() {
	h.mu.Lock()
	defer h.mu.Unlock()
	if _, ok := h.objs["late"]; ok {
		return
	}
	v := JVal{"int64", "100"}
	h.specs = append(h.specs, ObjSpec{Name: "late", Type: "val", Val: &v})
	h.objs["late"] = int64(100)
	if h.dc != nil {
		h.dc.Add("late", int64(100))
	}
}

func (h *hostEnv) rec(fn string, args ...interface{}) {
	ev := traceEv{Fn: fn}
	for _, a := range args {
		ev.Args = append(ev.Args, jvalOfIface(a))
	}
	h.mu.Lock()
	h.trace = append(h.trace, ev)
	h.mu.Unlock()
}

// function library (semantics mirrored in lean/GV/Eval/Eval.lean applyFunc)
func (h *hostEnv) funcValue(id string) interface{} {
	switch id {
	case "obs":
		return func(x int64) { h.rec("obs", x) }
	case "obsS":
		return func(s string) { h.rec("obsS", s) }
	case "obsC":
		return func(x int64) { h.delay(150 * time.Microsecond); h.rec("obsC", x) }
	case "bump":
		return func() int64 {
			h.mu.Lock()
			defer h.mu.Unlock()
			p, ok := h.objs["p_int64"].(*int64)
			if !ok {
				panic("bump: p_int64 is not injected as *int64")
			}
			*p++
			return *p
		}
	case "inj":
		return func() { h.inject() }
	case "injS":
		return func() { h.injectStruct() }
	case "tick":
		return func() int64 { return atomic.AddInt64(&h.tickN, 1) }
	case "sync":
		return func() {
			h.mu.Lock()
			h.syncArr++
			if h.syncArr == h.syncN {
				close(h.syncCh)
			}
			ch := h.syncCh
			h.mu.Unlock()
			select {
			case <-ch:
			case <-time.After(2 * time.Second):
			}
		}
	case "syncv":
		// the barrier of `sync`, passing its argument through
		return func(x int64) int64 {
			h.mu.Lock()
			h.syncArr++
			if h.syncArr == h.syncN {
				close(h.syncCh)
			}
			ch := h.syncCh
			h.mu.Unlock()
			select {
			case <-ch:
			case <-time.After(2 * time.Second):
			}
			return x
		}
	case "pair":
		return func(a, b int64) int64 { return a*1000 + b }
	case "cat":
		return func(a, b string) string { return a + b }
	case "boom":
		return func() { panic("boom") }
	case "neg":
		return func(b bool) bool { return !b }
	case "sum3":
		return func(a int8, b uint16, c float32) float64 { return float64(a) + float64(b) + float64(c) }
	case "echo_int":
		return func(x int) int { return x }
	case "echo_int8":
		return func(x int8) int8 { return x }
	case "echo_int16":
		return func(x int16) int16 { return x }
	case "echo_int32":
		return func(x int32) int32 { return x }
	case "echo_int64":
		return func(x int64) int64 { return x }
	case "echo_uint":
		return func(x uint) uint { return x }
	case "echo_uint8":
		return func(x uint8) uint8 { return x }
	case "echo_uint16":
		return func(x uint16) uint16 { return x }
	case "echo_uint32":
		return func(x uint32) uint32 { return x }
	case "echo_uint64":
		return func(x uint64) uint64 { return x }
	case "echo_float32":
		return func(x float32) float32 { return x }
	case "echo_float64":
		return func(x float64) float64 { return x }
	case "echo_string":
		return func(x string) string { return x }
	case "echo_bool":
		return func(x bool) bool { return x }
	}
	return nil
}

// build the Go objects for the specs
func (h *hostEnv) materialise() {
	h.objs = map[string]interface{}{}
	for i := range h.specs {
		sp := &h.specs[i]
		switch sp.Type {
		case "val":
			h.objs[sp.Name] = goValue(*sp.Val)
		case "pscalar":
			v := reflect.ValueOf(goValue(*sp.Val))
			p := reflect.New(v.Type())
			p.Elem().Set(v)
			h.objs[sp.Name] = p.Interface()
		case "struct":
			s := &HostS{Sub: &HostSub{}}
			sv := reflect.ValueOf(s).Elem()
			for _, f := range sp.Fields {
				name := f[0].(string)
				jv := f[1].(JVal)
				sv.FieldByName(name).Set(reflect.ValueOf(goValue(jv)))
			}
			if sp.Ptr {
				h.objs[sp.Name] = s
			} else {
				h.objs[sp.Name] = *s
			}
		case "map":
			kt := reflect.TypeOf(goValue(JVal{sp.KeyK, "0"}))
			if sp.KeyK == "string" {
				kt = reflect.TypeOf("")
			}
			et := reflect.TypeOf(goValue(JVal{sp.ElemK, "0"}))
			if sp.ElemK == "string" {
				et = reflect.TypeOf("")
			}
			m := reflect.MakeMap(reflect.MapOf(kt, et))
			for _, e := range sp.Entries {
				m.SetMapIndex(reflect.ValueOf(goValue(e[0])), reflect.ValueOf(goValue(e[1])))
			}
			if sp.Ptr {
				p := reflect.New(m.Type())
				p.Elem().Set(m)
				h.objs[sp.Name] = p.Interface()
			} else {
				h.objs[sp.Name] = m.Interface()
			}
		case "slice":
			et := reflect.TypeOf(goValue(JVal{sp.ElemK, "0"}))
			if sp.ElemK == "string" {
				et = reflect.TypeOf("")
			}
			var c reflect.Value
			if sp.IsArray {
				c = reflect.New(reflect.ArrayOf(len(sp.Elems), et)).Elem()
			} else {
				c = reflect.MakeSlice(reflect.SliceOf(et), len(sp.Elems), len(sp.Elems))
			}
			for i, e := range sp.Elems {
				c.Index(i).Set(reflect.ValueOf(goValue(e)))
			}
			if sp.Ptr {
				p := reflect.New(c.Type())
				p.Elem().Set(c)
				h.objs[sp.Name] = p.Interface()
			} else {
				h.objs[sp.Name] = c.Interface()
			}
		case "func":
			h.objs[sp.Name] = h.funcValue(sp.Func)
		}
	}
}

// snapshot the host objects after the call, in spec form
func (h *hostEnv) snapshot() []ObjSpec {
	out := []ObjSpec{}
	for _, sp := range h.specs {
		cp := sp
		o := h.objs[sp.Name]
		v := reflect.ValueOf(o)
		switch sp.Type {
		case "val":
			jv := jvalOf(v)
			cp.Val = &jv
		case "pscalar":
			jv := jvalOf(v.Elem())
			cp.Val = &jv
		case "struct":
			sv := v
			if sp.Ptr {
				sv = v.Elem()
			}
			cp.Fields = nil
			for _, f := range hostFields {
				cp.Fields = append(cp.Fields, [2]interface{}{f, jvalOf(sv.FieldByName(f))})
			}
		case "map":
			mv := v
			if sp.Ptr {
				mv = v.Elem()
			}
			cp.Entries = nil
			for _, k := range mv.MapKeys() {
				cp.Entries = append(cp.Entries, [2]JVal{jvalOf(k), jvalOf(mv.MapIndex(k))})
			}
			sort.Slice(cp.Entries, func(i, j int) bool {
				return fmt.Sprint(cp.Entries[i][0]) < fmt.Sprint(cp.Entries[j][0])
			})
		case "slice":
			cv := v
			if sp.Ptr {
				cv = v.Elem()
			}
			cp.Elems = nil
			for i := 0; i < cv.Len(); i++ {
				cp.Elems = append(cp.Elems, jvalOf(cv.Index(i)))
			}
		}
		out = append(out, cp)
	}
	return out
}

// a standard environment: scalars of every kind by value, S (struct pointer), SV (struct by
// value), pointer scalars, maps, slices, arrays, the function library
func genHostEnv(r *rng) *hostEnv {
	h := &hostEnv{}
	add := func(sp ObjSpec) { h.specs = append(h.specs, sp) }
	for _, k := range append(append([]string{}, numKinds...), "string", "bool") {
		v := randVal(r, k)
		add(ObjSpec{Name: "v_" + k, Type: "val", Val: &v})
	}
	for _, k := range append(append([]string{}, numKinds...), "string", "bool") {
		v := randVal(r, k)
		add(ObjSpec{Name: "w_" + k, Type: "val", Val: &v})
	}
	mkFields := func() [][2]interface{} {
		var fs [][2]interface{}
		for _, f := range hostFields {
			fs = append(fs, [2]interface{}{f, randVal(r, fieldKind(f))})
		}
		return fs
	}
	add(ObjSpec{Name: "S", Type: "struct", Ptr: true, Fields: mkFields()})
	add(ObjSpec{Name: "SV", Type: "struct", Ptr: false, Fields: mkFields()})
	for _, k := range []string{"int32", "uint16", "float64", "string", "int64", "uint64", "float32", "bool"} {
		v := randVal(r, k)
		add(ObjSpec{Name: "p_" + k, Type: "pscalar", Val: &v})
	}
	ent := func(keyK, elemK string, keys []string) [][2]JVal {
		var es [][2]JVal
		for _, k := range keys {
			es = append(es, [2]JVal{{keyK, k}, randVal(r, elemK)})
		}
		return es
	}
	add(ObjSpec{Name: "M", Type: "map", Ptr: false, KeyK: "string", ElemK: "int64", Entries: ent("string", "int64", []string{"a", "b", "c"})})
	add(ObjSpec{Name: "MP", Type: "map", Ptr: true, KeyK: "string", ElemK: "int32", Entries: ent("string", "int32", []string{"a", "b"})})
	add(ObjSpec{Name: "MI", Type: "map", Ptr: true, KeyK: "int64", ElemK: "string", Entries: ent("int64", "string", []string{"1", "2"})})
	add(ObjSpec{Name: "MF", Type: "map", Ptr: true, KeyK: "int32", ElemK: "float64", Entries: ent("int32", "float64", []string{"1", "5"})})
	els := func(k string, n int) []JVal {
		var es []JVal
		for i := 0; i < n; i++ {
			es = append(es, randVal(r, k))
		}
		return es
	}
	add(ObjSpec{Name: "A", Type: "slice", Ptr: false, ElemK: "int64", Elems: els("int64", 3)})
	add(ObjSpec{Name: "AP", Type: "slice", Ptr: true, ElemK: "int32", Elems: els("int32", 3)})
	add(ObjSpec{Name: "AU", Type: "slice", Ptr: true, ElemK: "uint8", Elems: els("uint8", 2)})
	add(ObjSpec{Name: "ARR", Type: "slice", Ptr: true, IsArray: true, ElemK: "int16", Elems: els("int16", 3)})
	add(ObjSpec{Name: "AS", Type: "slice", Ptr: false, ElemK: "string", Elems: els("string", 2)})
	for _, f := range []string{"obs", "obsS", "cat", "boom", "neg", "sum3", "obsC", "inj", "injS", "bump"} {
		add(ObjSpec{Name: f, Type: "func", Func: f})
	}
	for _, k := range append(append([]string{}, numKinds...), "string", "bool") {
		add(ObjSpec{Name: "echo_" + k, Type: "func", Func: "echo_" + k})
	}
	h.materialise()
	return h
}
